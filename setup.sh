#!/bin/bash
# Build the framework from files on disk only (offline) and warm the Go build cache.
set -eu
export GOFLAGS=-mod=mod GOPROXY=off GOSUMDB=off GOTOOLCHAIN=local CGO_ENABLED=0
VERIF="$(cd "$(dirname "$0")" && pwd)"
mkdir -p "$VERIF/bin" "$VERIF/evidence" "$VERIF/replays"
(cd "$VERIF/tools/mkinst" && go build -o "$VERIF/bin/mkinst" .)
# warm the cache: instrument + build once, run nothing
BASE=/dev/shm; [ -d "$BASE" ] && [ -w "$BASE" ] || BASE="${TMPDIR:-/var/tmp}"
SCR="$(mktemp -d "$BASE/verif.XXXXXX")"; trap 'rm -rf "$SCR"' EXIT
mkdir -p "$SCR/src"
rsync -a --exclude .git "${VERIF_REPO:-/repo}"/ "$SCR/src"/
"$VERIF/bin/mkinst" -vos news.go,threaded_news.go,account_manager.go,ban.go,files.go "$SCR/src/hotline" "$SCR/src/internal/mobius"
cp -r "$VERIF/harness" "$SCR/src/verifh"
(cd "$SCR/src" && go build -trimpath -tags verif -o "$SCR/vcheck" ./verifh/cmd/vcheck)
echo "setup ok"
