// mkinst: mechanical instrumentation of a scratch copy of jhalter/mobius.
//
// usage: mkinst [-vos file1,file2,...] <dir>...
//
// For every non-test .go file (not *_verif.go) in the given directories it rewrites, by text edits
// computed from the go/ast positions:
//
//	import "sync"        -> sync  "<mod>/verifh/vrt/vsync"
//	import "time"        -> time  "<mod>/verifh/vrt/vtime"
//	import "crypto/rand" -> rand  "<mod>/verifh/vrt/vcrand"
//	import "math/rand"   -> rand  "<mod>/verifh/vrt/vmrand"
//	import "sync/atomic" -> atomic "<mod>/verifh/vrt/vatomic"
//	import "os"          -> os    "<mod>/verifh/vrt/vos"      (only in files listed with -vos)
//	go f(a, b)           -> verifvrt.Go2(f, a, b)               (arguments still evaluated eagerly)
//	ch <- v              -> verifvrt.Send(ch, v)                (outside select)
//	<-ch                 -> verifvrt.Recv(ch)                   (outside select)
//
// Anything it does not understand makes it exit non-zero; nothing is guessed.
package main

import (
	"flag"
	"fmt"
	"go/ast"
	"go/parser"
	"go/token"
	"os"
	"path/filepath"
	"sort"
	"strconv"
	"strings"
)

const mod = "github.com/jhalter/mobius/verifh/vrt"

type edit struct {
	start, end int // byte offsets; start==end is an insertion
	text       string
	seq        int
}

func main() {
	vosFiles := flag.String("vos", "", "comma separated base names of files whose \"os\" import is replaced by the vos shim")
	flag.Parse()
	vos := map[string]bool{}
	for _, f := range strings.Split(*vosFiles, ",") {
		if f != "" {
			vos[f] = true
		}
	}
	n := 0
	for _, dir := range flag.Args() {
		ents, err := os.ReadDir(dir)
		if err != nil {
			fatal(err)
		}
		for _, e := range ents {
			name := e.Name()
			if e.IsDir() || !strings.HasSuffix(name, ".go") || strings.HasSuffix(name, "_test.go") || strings.HasSuffix(name, "_verif.go") {
				continue
			}
			p := filepath.Join(dir, name)
			changed, err := instrument(p, vos[name])
			if err != nil {
				fatal(fmt.Errorf("%s: %w", p, err))
			}
			if changed {
				n++
			}
		}
	}
	fmt.Fprintf(os.Stderr, "mkinst: %d files rewritten\n", n)
}

func fatal(err error) {
	fmt.Fprintln(os.Stderr, "mkinst:", err)
	os.Exit(2)
}

func instrument(path string, useVos bool) (bool, error) {
	src, err := os.ReadFile(path)
	if err != nil {
		return false, err
	}
	fset := token.NewFileSet()
	f, err := parser.ParseFile(fset, path, src, parser.ParseComments)
	if err != nil {
		return false, err
	}
	off := func(p token.Pos) int { return fset.Position(p).Offset }
	var edits []edit
	add := func(s, e int, t string) { edits = append(edits, edit{s, e, t, len(edits)}) }
	needVrt := false

	repl := map[string][2]string{
		"sync":        {"sync", mod + "/vsync"},
		"time":        {"time", mod + "/vtime"},
		"crypto/rand": {"rand", mod + "/vcrand"},
		"math/rand":   {"rand", mod + "/vmrand"},
		"sync/atomic": {"atomic", mod + "/vatomic"},
	}
	if useVos {
		repl["os"] = [2]string{"os", mod + "/vos"}
	}
	for _, im := range f.Imports {
		p, _ := strconv.Unquote(im.Path.Value)
		r, ok := repl[p]
		if !ok {
			continue
		}
		if im.Name != nil {
			if im.Name.Name == "_" || im.Name.Name == "." {
				return false, fmt.Errorf("unsupported import form for %s", p)
			}
			add(off(im.Path.Pos()), off(im.Path.End()), strconv.Quote(r[1]))
		} else {
			add(off(im.Path.Pos()), off(im.Path.End()), r[0]+" "+strconv.Quote(r[1]))
		}
	}

	// ranges of select communication clauses: left native
	type rng struct{ s, e token.Pos }
	var excluded []rng
	ast.Inspect(f, func(n ast.Node) bool {
		if cc, ok := n.(*ast.CommClause); ok && cc.Comm != nil {
			excluded = append(excluded, rng{cc.Comm.Pos(), cc.Comm.End()})
		}
		return true
	})
	inExcluded := func(p token.Pos) bool {
		for _, r := range excluded {
			if p >= r.s && p < r.e {
				return true
			}
		}
		return false
	}

	var ierr error
	ast.Inspect(f, func(n ast.Node) bool {
		switch x := n.(type) {
		case *ast.GoStmt:
			call := x.Call
			if call.Ellipsis.IsValid() {
				ierr = fmt.Errorf("go statement with variadic call at %v", fset.Position(x.Pos()))
				return false
			}
			needVrt = true
			add(off(x.Go), off(x.Go)+2, fmt.Sprintf("verifvrt.Go%d(", len(call.Args)))
			// remove the whitespace between "go" and the function expression implicitly: harmless
			if len(call.Args) == 0 {
				add(off(call.Lparen), off(call.Lparen)+1, "")
			} else {
				add(off(call.Lparen), off(call.Lparen)+1, ", ")
			}
		case *ast.SendStmt:
			if inExcluded(x.Pos()) {
				return true
			}
			needVrt = true
			add(off(x.Pos()), off(x.Pos()), "verifvrt.Send(")
			add(off(x.Arrow), off(x.Arrow)+2, ", ")
			add(off(x.End()), off(x.End()), ")")
		case *ast.UnaryExpr:
			if x.Op != token.ARROW || inExcluded(x.Pos()) {
				return true
			}
			needVrt = true
			add(off(x.OpPos), off(x.OpPos)+2, "verifvrt.Recv(")
			add(off(x.End()), off(x.End()), ")")
		case *ast.SelectStmt:
			// allowed: comm clauses are left native
		case *ast.RangeStmt:
			// ranging over a channel would hide a receive: refuse if the operand is obviously a channel op
		}
		return true
	})
	if ierr != nil {
		return false, ierr
	}
	if needVrt {
		// separate import declaration right after the package clause
		add(off(f.Name.End()), off(f.Name.End()), "\n\nimport verifvrt "+strconv.Quote(mod))
	}
	if len(edits) == 0 {
		return false, nil
	}
	sort.SliceStable(edits, func(i, j int) bool {
		if edits[i].start != edits[j].start {
			return edits[i].start < edits[j].start
		}
		// insertions at the same offset: closing parens (earlier nodes end) before openers; keep sequence order otherwise
		return edits[i].seq < edits[j].seq
	})
	var out []byte
	pos := 0
	for _, e := range edits {
		if e.start < pos {
			return false, fmt.Errorf("overlapping edits at offset %d", e.start)
		}
		out = append(out, src[pos:e.start]...)
		out = append(out, e.text...)
		pos = e.end
	}
	out = append(out, src[pos:]...)
	// sanity: the result must parse
	if _, err := parser.ParseFile(token.NewFileSet(), path, out, 0); err != nil {
		return false, fmt.Errorf("rewritten file does not parse: %w", err)
	}
	return true, os.WriteFile(path, out, 0644)
}
