module mkinst

go 1.23
