#!/bin/bash
# tools/prefix_run.sh <Cxx> [quick|thorough] [files...] — runs a check against a scratch copy of /repo's working tree with
# the uncommitted changes (of the given files, default all) reverted: "does the check reproduce the defect before the
# repair?"  /repo and /verif/evidence are not touched.
set -u
ID="$1"; TIER="${2:-quick}"; shift; shift || true
VERIF="$(cd "$(dirname "$0")/.." && pwd)"
SC="$(mktemp -d /dev/shm/prefix.XXXXXX)"; trap 'rm -rf "$SC"' EXIT
rsync -a --exclude .git /repo/ "$SC/src"/ || exit 2
git -C /repo diff -- "$@" > "$SC/d.diff"
[ -s "$SC/d.diff" ] || { echo "prefix_run: no uncommitted change" >&2; exit 2; }
(cd "$SC/src" && patch -R -p1 -s < "$SC/d.diff") || exit 2
VERIF_REPO="$SC/src" VERIF_EVIDENCE_DIR="$SC/evidence" "$VERIF/run.sh" "$ID" "$TIER" 2>&1 | grep -E "VIOLATION|KNOWN|violations=|BROKEN|broken" | cut -c1-300
for f in $(ls -t "$VERIF"/replays/$ID-*.json 2>/dev/null | head -${SHOW:-6}); do python3 -c "
import json,sys;r=json.load(open('$f'));print(' ',r['signature']);print('     ',r['detail'][:240].replace('\n',' '))"; done
