#!/usr/bin/env python3
"""Regenerates the table of DESIGN.md §12.3 from evidence/*.json (between the BOUNDS-TABLE markers)."""
import json, glob, os, re
root = os.path.dirname(os.path.dirname(os.path.abspath(__file__)))
rows = ["| id | level (evidence) | tier | evaluations | states | transitions | distinct observations | wall (s) |", "|---|---|---|---|---|---|---|---|"]
for p in sorted(glob.glob(os.path.join(root, "evidence", "C*.json"))):
    e = json.load(open(p)); c = e["coverage"]
    rows.append("| %s | %s | %s | %s | %s | %s | %s | %d |" % (e["property_id"], e["level"], e["tier"], c.get("evaluations", 0), c.get("states", 0), c.get("transitions", 0), c.get("distinct_nontrivial", 0), round(e["wall_s"])))
table = "\n".join(rows)
d = os.path.join(root, "DESIGN.md")
s = open(d).read()
s2 = re.sub(r"<!-- BOUNDS-TABLE -->.*?<!-- /BOUNDS-TABLE -->", "<!-- BOUNDS-TABLE -->\n" + table + "\n<!-- /BOUNDS-TABLE -->", s, flags=re.S)
open(d, "w").write(s2)
print(table)
