#!/usr/bin/env python3
# usage: recfix.py <property> <commit> <what> <line-summary> <sig> [<sig>...]
import json,sys
prop,commit,what,summ=sys.argv[1:5]
kf=json.load(open('/verif/known_findings.json'))
for s in sys.argv[5:]:
    kf.append({"status":"fixed","property":prop,"signature":s,"what":what,"commit":commit,"line":"fixed: property=%s %s %s [%s]"%(prop,commit,summ,s)})
json.dump(kf,open('/verif/known_findings.json','w'),indent=1)
