#!/bin/bash
# tools/confirm_mutant.sh <agent-out-dir> <seeded-name> <property>
# Confirms in a scratch worktree that a seeded change compiles, passes the pinned suite, and that its
# demonstration passes without / fails with the change; then stores it under /verif/seeded/<name>/.
set -u
export GOFLAGS=-mod=mod GOPROXY=off GOSUMDB=off GOTOOLCHAIN=local
SRC="$1"; NAME="$2"; PROP="$3"
DEMO="$(ls "$SRC"/*_test.go 2>/dev/null | head -1)"
[ -f "$SRC/patch.diff" ] && [ -n "$DEMO" ] || { echo "missing patch or demo in $SRC"; exit 2; }
PKG="$(grep -m1 '^package ' "$DEMO" | awk '{print $2}')"
case "$PKG" in mobius|mobius_test) DIR=internal/mobius;; hotline|hotline_test) DIR=hotline;; *) echo "unknown package $PKG"; exit 2;; esac
RUN="$(grep -o "\-run '[^']*'" "$DEMO" | head -1 | sed "s/-run '//; s/'$//")"
[ -n "$RUN" ] || RUN="$(grep -o '^func Test[A-Za-z0-9_]*' "$DEMO" | sed 's/func //' | paste -sd'|')"
WT="$(mktemp -d /tmp/cw.XXXXXX)"; rmdir "$WT"
git -C /repo worktree add -q --detach "$WT" HEAD || exit 2
trap 'git -C /repo worktree remove --force "$WT" 2>/dev/null; rm -rf "$WT"' EXIT
cd "$WT"
i=0; for f in "$SRC"/*_test.go; do i=$((i+1)); cp "$f" "$DIR/zz_demo${i}_test.go"; done
go test -tags verif -vet=off -count=1 -run "$RUN" "./$DIR/" >/tmp/cm.clean.log 2>&1; CLEAN=$?
rm -f "$DIR"/zz_demo*_test.go
git apply "$SRC/patch.diff" || { echo "patch does not apply to HEAD"; exit 2; }
go build ./... >/tmp/cm.build.log 2>&1; BUILD=$?
go test -vet=off -count=1 ./... >/tmp/cm.suite.log 2>&1; SUITE=$?
i=0; for f in "$SRC"/*_test.go; do i=$((i+1)); cp "$f" "$DIR/zz_demo${i}_test.go"; done
go test -tags verif -vet=off -count=1 -run "$RUN" "./$DIR/" >/tmp/cm.mut.log 2>&1; MUT=$?
echo "demo-clean=$CLEAN build=$BUILD suite=$SUITE demo-mutated=$MUT (want 0 0 0 non-zero)"
if [ $CLEAN = 0 ] && [ $BUILD = 0 ] && [ $SUITE = 0 ] && [ $MUT != 0 ]; then
  OUT="/verif/seeded/$NAME"; mkdir -p "$OUT"
  cp "$SRC/patch.diff" "$OUT/patch.diff"; cp "$SRC"/*_test.go "$OUT/"; [ -f "$SRC/notes.md" ] && cp "$SRC/notes.md" "$OUT/notes.md"
  python3 - "$OUT" "$PROP" "$DIR" "$RUN" <<'PY'
import json,sys,re
out,prop,d,run=sys.argv[1:5]
notes=open(out+'/notes.md').read() if __import__('os').path.exists(out+'/notes.md') else ''
json.dump({"property":prop,"source":"independent sub-agent given only the property text and a scratch worktree",
 "needs_to_manifest":"see notes.md","demo":{"package_dir":d,"run":run},
 "confirmed":{"demo_on_clean_tree":"pass","build_with_change":"ok","pinned_suite_with_change":"pass","demo_with_change":"fail"},
 "confirmed_by":"tools/confirm_mutant.sh in a scratch worktree of /repo HEAD","detected_by":None},open(out+'/meta.json','w'),indent=1)
PY
  echo "stored $OUT"
else
  echo "NOT CONFIRMED"; tail -n 5 /tmp/cm.clean.log; tail -n 5 /tmp/cm.suite.log; tail -n 8 /tmp/cm.mut.log; exit 1
fi
