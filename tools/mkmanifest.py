#!/usr/bin/env python3
"""Regenerates /verif/MANIFEST.json from the table below (keeps the file valid at all times)."""
import json, os, sys
ROOT = os.path.dirname(os.path.dirname(os.path.abspath(__file__)))
ALL = ["C%02d" % i for i in range(1, 21)]

# id -> (category, technique, level text, level note, design ref)
CHECKS = {
 "C14": ("model_checking",
         "stateless schedule exploration (deviation-bounded DFS under a controlled scheduler) of the real processOutbox/sendTransaction and connection loop",
         "All schedules of 2-3 sender threads / 2 clients x 2 requests / a login with a pipelined first request during a 40,000-byte broadcast that depart from the default schedule at most 1-2 (quick) or 2-3 (thorough) times are executed on the real code; every client's byte stream is re-framed by an independent decoder and replies are matched against a request-id ledger.",
         "Scheduling points at sync/channel/spawn/connection operations (sequential consistency between them); Write calls atomic as on TCP; bounded senders and sizes from the stated set.",
         "DESIGN.md §5 C14"),
 "C05": ("exploration",
         "bounded-exhaustive enumeration of (request kind x requester bitmap) configurations on the real connection loop, compared with empty-bitmap and all-bitmap reference runs",
         "Every one of ~90 request kinds (one per transaction type and target kind that selects a different privilege, incl. entries whose stored metadata claims the other kind, aliases to files and folders, other spellings of drop-box / upload-folder paths, requests combining two effects) is run with the empty, full, every single-bit and every all-but-one bitmap (plus all four combinations for two-privilege effects) in a fresh world with an observer: without the governing privilege there must be an error reply, an unchanged snapshot and nothing delivered to others; with it the reply, snapshot and deliveries must equal the fully-privileged run.",
         "Privilege table written from the protocol's description of each effect; bitmaps that differ from empty/all in more than two bits are not enumerated; default schedule only (the quantifier has no schedules).",
         "DESIGN.md §5 C05"),
 "C06": ("exploration",
         "bounded-exhaustive enumeration of (creator bitmap, requested bitmap) pairs through both creation requests and of disconnect requests x ban options x target bitmaps on the real connection loop",
         "All 64x64 single-bit pairs plus empty/all/all-but-one on either side through NewUser and UpdateUser(create); the created account is read back in memory, from the file (independent YAML parse) and from a freshly loaded manager and must be a subset of the creator's. Disconnect with every ban option against protected targets must leave the connection open, announce nothing, and leave the address unbanned in memory, on disk and at the door.",
         "Bitmaps with more than two interesting bits are represented by all / all-but-one; default schedule.",
         "DESIGN.md §5 C06"),
 "C16": ("exploration",
         "bounded-exhaustive enumeration of small subsets of the 40 defined privilege bits through every storage/wire path",
         "Every bitmap with 0, 1, 2 (thorough: 3) defined bits, the full sets and every undefined bit, through yaml save/load, the legacy array form, the account manager (create, migration, fresh load) and the login access field plus ten governed requests; the keys that are true in the file must be the protocol's names of the set bits (table written from the protocol document).",
         "Name table in ref/priv.go is trusted; subsets of 4..39 bits are outside the bound.",
         "DESIGN.md §5 C16"),
 "C04": ("model_checking",
         "bounded-exhaustive enumeration of pre-login sessions on the real connection loop plus stateless schedule exploration (deviation-bounded DFS with hold-back) of a refused and an accepted login in flight together",
         "~3,800 sessions (handshake variants x first transaction of any type x credential alphabets x four account databases incl. malformed stored hashes x banned/not x one or two appended requests) decide logged-in against an independent bcrypt reference and check bytes received, world snapshot and an observer's inbox; all schedules of two simultaneous logins with at most 2 (thorough 3) deviations check that the refused peer receives nothing but greeting and one error; an invalid handshake split around another peer's valid one is still refused.",
         "Credential alphabets are small; appended transactions from a 60-request corpus; scheduling points at sync/atomic/channel/connection/file-system operations.",
         "DESIGN.md §5 C04"),
 "C13": ("model_checking",
         "explicit-state breadth-first search over presence histories replayed on the real server (canonical-state deduplication), the same histories shifted across the 65,536-connection boundary, and schedule exploration of two simultaneous connects",
         "Every history up to depth 5 (thorough 6) over 31 operations of three clients plus a probe is executed on a fresh server; in every new state user ids are pairwise distinct, each client's roster folded from the notifications it received equals a fresh user list, and targeted requests (private message with refuse/auto-reply semantics, invitation, info, kick) reach only the holder of the id.",
         "Three client slots; default schedule for histories (the quantifier has no schedules); wrap family at depth 2 (thorough 3) for offsets 0..3.",
         "DESIGN.md §5 C13"),
 "C15": ("model_checking",
         "explicit-state breadth-first search over account-management histories against a reference account model, four views compared after every transition; schedule exploration of two concurrent modifications of one account",
         "Every history up to depth 3 (thorough 4) over ~50 operations (new/set/delete/batched create, modify, rename, delete; three logins plus one whose file cannot be created, passwords incl. one starting with wire byte 0x00 and 72/73-byte ones around bcrypt's input limit) is replayed through an administrator's connection; afterwards login attempts for every login x password, the list-users reply, the independently parsed accounts directory and a freshly loaded account manager must equal the model; E-SCHED checks that memory and disk agree after two concurrent edits.",
         "Renames only onto unused logins; small login/password alphabets; whether a stored hash belongs to a password is asked of the server's own login check.",
         "DESIGN.md §5 C15"),
 "C12": ("model_checking",
         "explicit-state breadth-first search over chat histories replayed on the real server, deliveries compared with a reference chat model after every operation; stateless schedule exploration (deviation-bounded DFS) of pairs of concurrent chat operations",
         "Every history up to depth 4 (thorough 5) over 47 operations of three clients with (read,send) privileges (1,1),(0,1),(1,0) and name lengths 1/13/14, starting from the all-connected state: after the last operation the multiset of (recipient, transaction) deliveries — public lines, private lines, invitations, join/leave/subject notices, decline notices — must equal the model's, texts in protocol format cut at 8192 bytes, and nothing may reach a user who left or declined, or an outsider without chat privileges. Every usable pair of operations by two clients from three base states is also issued concurrently under every schedule with at most 1 (thorough 2) deviations: what both sequential orders deliver is delivered, everything delivered is delivered by one and the same order.",
         "At most two private chats; operations address existing users/chats; default schedule.",
         "DESIGN.md §5 C12"),
 "C17": ("model_checking",
         "explicit-state breadth-first search over ban histories under a virtual clock, door behaviour compared with a reference ban model; schedule exploration of two concurrent bans followed by a restart",
         "Every history up to depth 5 (thorough 6) over 15 operations (kick with no/temporary/permanent ban, reconnects from the banned address, the same host on another port and two look-alike addresses with right/wrong password, restart from the files, clock advances): the kicked user's connection closes and others are told; a banned address gets handshake reply plus one ban notice and no login processing inside the window / forever, also after restart; everybody else is served; expiry re-admits. The canonical state includes the implementation's own ban table so that divergent states are expanded, not merged.",
         "Instants within 3 s of expiry are not probed; 4 addresses.",
         "DESIGN.md §5 C17"),
 "C18": ("model_checking",
         "explicit-state breadth-first search over threaded-news histories against a reference news model with a strict reference decoder; schedule exploration of two concurrent posts followed by a reload and of three concurrent category listings",
         "Every history up to depth 4 (thorough 5) over 28 operations (create bundle/category incl. under a taken name, post with 1- and 255-byte titles/posters and bodies up to 65,000 bytes, reply, delete article, delete present and missing items, reload, reload after the operator restored an older file): get-article for every present id, the article list decoded strictly (ids once, in order, sizes and flavors), category listings of every path and a second store loaded from the YAML file must equal the model; new ids unused, parent recorded, linked after the previous newest.",
         "Fresh names for new groupings; links of remaining articles after a deletion are unspecified and not compared.",
         "DESIGN.md §5 C18"),
 "C08": ("exploration",
         "bounded-exhaustive input enumeration of downloads with a reference transfer client parsing the real transfer stream",
         "~1,200 downloads: sizes around every buffer boundary up to 1 MiB+3 (thorough 5 MiB) x six stored-fork sets x resume offsets (all for small files) x name shapes x preview; the reply's size fields and the stream (FILP header with self-consistent INFO size and name length, exactly data[k:], resource fork iff stored, nothing else but the pinned empty MACR header) are checked by an independent parser.",
         "One empty MACR header after the announced size is pinned by the existing test and tolerated; DATA-header size on resume is unspecified.",
         "DESIGN.md §5 C08"),
 "C09": ("fault_enumeration",
         "exhaustive enumeration of connection-cut points (reset and clean end-of-stream) over upload/resume histories on the real transfer path, directory compared with the reference after every cut",
         "~67,000 histories: for five data sizes with/without resource fork and fork preservation the upload stream is cut at every byte offset (every structural boundary for 33,000 bytes), resumed from the server-reported offset, cut again (all pairs for the 8-byte file), completed and downloaded: final name absent until complete (and not downloadable as a complete file after a cut), .incomplete = delivered prefix, reported offset = its size, published file = sent bytes, existing file never overwritten (also when two uploads of one free name were granted before either published).",
         "A cut delivers an in-order prefix; at most 2 (thorough 3) cuts; re-upload without resume over a partial is unspecified and not enumerated.",
         "DESIGN.md §5 C09"),
 "C02": ("model_checking",
         "deviation-bounded environment exploration: every placement of up to two read-boundary cuts (and fixed-size segmentations) of five scripted client sessions on the real connection and transfer loops, each compared with the unsplit run",
         "~19,000 segmentations (thorough ~250,000) of a control session (incl. a 5,000-byte line that forces the scanner buffer to grow), a file upload, a folder upload, a file download and a folder download: every single cut, pairs of cuts in the header regions, pieces of 1..16 bytes; the normalised multiset of transactions received, the transfer bytes and the directory snapshot must equal the unsplit run's; a pipelined non-commuting session must give the same observation under every schedule with at most 1 (thorough 2) deviations; two overlapping uploads with an interleaved split preamble.",
         "Sessions are fixed well-formed scripts; default thread schedule; quick tier restricts pairs of cuts to the first 96 bytes.",
         "DESIGN.md §5 C02"),
 "C10": ("exploration",
         "bounded-exhaustive enumeration of directory trees x per-file action vectors with a reference folder-transfer client on the real transfer path, plus cut enumeration of folder uploads",
         "All trees with up to 4 (thorough 5) entries over small name/size alphabets (incl. dot files, empty folders, hidden folders with visible children): download with every action vector over {send, resume@0, resume@1, resume@size, skip}; upload into three target states; upload-then-download; folder upload reset at every client byte (also inside a resumed item) and retried; folders holding files with stored information/resource forks. Announced count = headers; headers = visible entries depth-first once each; size prefix and bytes per action; resulting tree = streamed tree; nothing partial under a final name.",
         "For trees with visible entries below a hidden folder only count = headers is checked; no symlinks.",
         "DESIGN.md §5 C10"),
 "C07": ("exploration",
         "bounded-exhaustive enumeration of hostile path/name/login components at every position of every file-touching and account request, in a sandbox with canary siblings, on the real control and transfer paths",
         "~25,000 requests (thorough adds triples): every placement of up to two components from a 23-element hostile alphabet into path items, names, new names, new paths, folder-upload item paths on the transfer stream and account logins (create, batched create, rename twice, set, delete, get), plus raw path fields with disagreeing prefixes; the snapshot of everything outside the file root and outside the accounts directory must be bit-identical afterwards, account files must be direct children, and no reply or transfer stream may contain canary content or list outside entries.",
         "The root itself counts as inside; its fork side-file names next to it count as outside.",
         "DESIGN.md §5 C07"),
 "C11": ("model_checking",
         "explicit-state breadth-first search over file-management histories against a reference namespace model, with every view (listing, get-info, download reply, disk) cross-checked in every state",
         "Every history up to depth 2 (thorough 3) over ~85 operations (rename, move, delete, create folder, alias, set comment; files with and without stored forks, a stored type that contradicts the extension, Mac-Roman file and folder names with operations below the folder, ignored entries, a partial upload deleted by its final name): the real tree must equal the model's (fork side-files and partial data travel or vanish with their file, mkdir never replaces), each folder's listing must equal the model's visible entries, and every listed complete entry must be addressable by its listed bytes for get-info and download with size/type agreeing across list, info, download reply and disk.",
         "Renames/moves only onto unused names; folder comment side-file after a folder rename and dangling aliases are unspecified.",
         "DESIGN.md §5 C11"),
 "C20": ("fault_enumeration",
         "exhaustive enumeration of process-kill points at every file-system step of every update in every short update history on the real stores, with the rest of the history run on the restarted stores; bound to reality by real SIGKILLs (strace fault injection on entry to every file system call) of the uninstrumented code, whose leftover directories must equal the simulated ones",
         "Every history of up to 2 (thorough 3) updates from a 15-update alphabet over board, threaded news, accounts and bans; for every update and every boundary between two file-mutating system calls the goroutine is ended there, the four stores are re-constructed by the real constructors and must load and hold the complete old or complete new value with everything acknowledged intact; the remaining updates then run on the restarted stores (leftover temp files are exercised) and a final restart is compared with the acknowledged state. Real kills: every file system call of every update kind from the initial directory (thorough: after every one-update prefix) in an uninstrumented helper process; same oracle, and the directory must equal the simulated crash's.",
         "Kill at system-call boundaries only (no torn writes, no power loss); rename atomicity trusted; the shim's step log equals the traced system calls for all 15 update kinds and every real-kill directory equals its simulated counterpart (checked on every run; needs strace, otherwise noted as skipped in the evidence).",
         "DESIGN.md §5 C20"),
 "C19": ("model_checking",
         "stateless schedule exploration (deviation-bounded DFS with hold-back) of concurrent board readers, posters and logins on the real handlers, with a linearizability-style oracle over the sequence of board values",
         "All schedules with at most 2 (thorough 3) deviations of: two readers + a poster, a reader + two posters, two logins being shown the agreement, a reader + a login, for board/agreement sizes that need 1..26 locked Read calls: every served text must be one the store held in full, all posts kept newest first in protocol format, every user notified, the file equal to the served board at quiescence; plus a sequential sweep of sizes up to 65,000 bytes.",
         "Three clients; scheduling points at sync/atomic/channel/connection/file-system operations.",
         "DESIGN.md §5 C19"),
 "C01": ("model_checking",
         "explicit-state search of every encoder's drain state machine (state = encoder incl. private read cursor, transition = Read with buffer size b) to a fixed point, over bounded-exhaustively generated objects, against an independent reference codec; decoders applied to the reference bytes",
         "~250 objects (thorough more) of 12 serialisable types built through the library's constructors with part lengths at every prefix boundary; for each the drain machine is explored for every buffer size 1..n+1 (n <= 96) or around every power-of-two boundary: every transition must return the next bytes of the reference encoding, make progress and end with io.EOF — by induction this decides all buffer-size sequences and termination; size prefixes are compared with the bytes that follow; Transaction/Field/User/FileNameWithInfo/InfoFork/FilePath/ResumeData/ServerRecord/handshake/preamble/news-path/int decoders and the transaction scanner are applied to reference bytes with trailing garbage.",
         "Objects = what the library's constructors/decoders can produce; reference codec written from the protocol document; very long encodings use boundary buffer sizes only.",
         "DESIGN.md §5 C01"),
 "C03": ("model_checking",
         "bounded-exhaustive mutation enumeration of one canonical request per transaction type (and of transfer streams) on the real connection/transfer loops with a sentinel client, plus stateless schedule exploration (deviation-bounded DFS with hold-back) of six concurrency scenarios",
         "~26,000 single mutations (thorough more) — truncation at every byte, every length word set to boundary values, every field dropped/duplicated/replaced, unknown type — sent before login, after a guest login and after an administrator login, and mutated upload / folder-upload / folder-download streams and reference numbers on the transfer port; scenarios: account changes vs. a half-open connection, two connections through the real accept loop, one reference number on two transfer connections, a client that stops reading during a 40 KB broadcast, a client that stops reading and sends 300 requests, a disconnect during a broadcast. Per execution: no un-recovered panic, nothing wedged, the sentinel (user list and a transfer request) answered while the hostile peer is silent, user list and connection/transfer counters back at the baseline afterwards.",
         "Declared allocation sizes are capped at 1 MiB as in the quantifier; a watchdog (30 s / 3 GiB per case) reports runaway cases as a cap; the thorough tier adds the race-oracle pass (concurrent map access = violation).",
         "DESIGN.md §5 C03"),
}

# sentences appended to the level texts: what the audit phase (DESIGN.md §12.4) added to each check
ADDED = {
 "C01": "Stream decoders are also fed by readers delivering 1, 7 and 113 bytes per call; every split function is checked on every prefix of a two-token stream; paths of 17 items of 255 bytes, user records built from icon fields of 0/1/3 bytes and information forks with names of 65,461 and 65,535 bytes are among the objects.",
 "C03": "The sentinel's probe also asks for the client info of every listed user and the file lists of the root and the upload folder; further scenarios: the same flood with 30 pending replies one deviation deeper, junk uploaded under an information-fork side-file name, aliases pointing at themselves. Also: the backlog of 100 pending replies drained under the least favourable schedule must cost a bounded number of scheduling steps and wake-ups per reply; a file list must be answered while another client deletes a file of that folder (directory reads and entry examinations are scheduling points). A forged chat invitation answered by the invited client leaves that client connected.",
 "C04": "The reference is exact password equality (also beyond bcrypt's 72-byte limit); a password P 00 P against the password P is a probe.",
 "C05": "Also: folders below a drop box / upload folder, renames that contain a separator, renames/moves/account renames onto taken names (nothing may be replaced), batched UpdateUser requests mixing entries under different privileges (nothing may be carried out when the request is refused), live sessions of an account edited through SetUser, UpdateUser, rename+edit and rename then SetUser; per-kind forbidden-state oracles; the name announced to others must be the listed name. Also: batch entries that depend on earlier entries of the same request, an account rename onto another account's file name, folder downloads touching a drop box, entries named like fork side files, and under every schedule with at most 1 (thorough 2) deviations a login overlapping an edit of its account ends with the privileges the account holds. Batches that edit the requester's own account or create an account with more access are refused before anything is carried out.",
 "C06": "Protection granted through SetUser, UpdateUser and rename+grant while two sessions of the account are connected.",
 "C07": "Also with a requester whose own file root has a non-ASCII name. Also for an account whose own file root does not exist.",
 "C08": "Also for an account with its own file root next to a same-named file in the server root, for a name that only exists as a partial upload (must be refused), and on resume the DATA fork header must announce the bytes that follow. Also when the server's random draw for the next reference number equals one that is waiting.",
 "C09": "A download is attempted after the first cut; a resume request racing the still-draining cut transfer is explored under every schedule with at most 1 (thorough 2) deviations. Every resume attempt must be answered, also when nothing of the file has been stored.",
 "C10": "On resume the item's DATA fork header must announce the remaining bytes; trees include entries with stored information and resource forks. Trees with names that are not ASCII (Mac Roman on the wire, UTF-8 on disk).",
 "C11": "Names containing '.incomplete' in the middle, a folder with a non-ASCII name, an information-fork side file of a partial upload, moving a partial upload, renaming an alias. Also a rename-with-comment onto a taken name (nothing of it may be carried out) and size agreement between list and get-info for a partial upload. Also: a file with a 245-byte name (no room for '.incomplete'), operations onto and on the name shown for a partial upload (rename, move, new folder, alias; moving the partial upload itself), renames the file system refuses.",
 "C12": "Histories in which the 16-bit id counter wraps after a member left (the new holder of the id must receive nothing), account edits through UpdateUser and rename, the emote option as a 2- or 4-byte integer. Also histories in which the server's random draw for a chat id is 0 or an id in use.",
 "C13": "Also: agreements without an icon field or with a 1-byte one, requests addressed to an id nobody holds (error reply, requester stays), a login while all 65,535 ids are in use (refused, server not wedged), and under every schedule with at most 1 (thorough 2) deviations the notices about one user reach an observer in the order of the requests. The user list must hold exactly the users who completed login; an administrator's edit of the account of a user who hangs up at the same moment must not leave that user on anybody's list. A client that sets its name before agreeing is not announced.",
 "C14": "Sizes include server-built fields of 65,536 and 70,000 bytes and a 70,400-byte message board (the stream must still re-frame). Also: a login overlapping the deletion of its account, and requests about a user who leaves at the same moment, are answered exactly once. The session of an account deleted during its login does not stay connected; a bystander is still answered after a notice about a departing user was dropped.",
 "C15": "Logins include strings the YAML library does not write back faithfully (a leading line feed; a leading tab followed by a line feed); the stored hash is verified through the server's own Authenticate. Logins with a Mac Roman byte (not valid UTF-8).",
 "C16": "Also a 5-byte access field and the 354 notice after rename-then-SetUser.",
 "C17": "Also ban options sent as 4-byte integers, a connection that shook hands before the ban and logs in during it, a banned address that only shakes hands, a ban whose save fails, two users behind one address banned permanently then temporarily.",
 "C18": "Also titles/bodies with leading tab/line feed and a 65,535-byte body, categories named '<<', delete-article on a missing category. Also Mac Roman titles, bodies and category names, and a reply to an article that has been deleted.",
 "C19": "A post is on disk iff it was acknowledged; posts of 60,000..65,500 bytes (refused when the announcement does not fit one field) must not damage any stream. Also with the NewsDelimiter option configured.",
 "C20": "The alphabet includes a post with tab/line-feed text and a category named '<<'. Also updates with Mac Roman text and the deletion of every account.",
}
NOT_YET = "check not built yet in this session (see DESIGN.md §11 build order)"

def main():
    checks = []
    for pid in ALL:
        if pid not in CHECKS:
            continue
        cat, tech, text, note, dref = CHECKS[pid]
        if pid in ADDED:
            text = text + " " + ADDED[pid]
        checks.append({
            "property_id": pid,
            "quick_cmd": "./run.sh %s quick" % pid,
            "thorough_cmd": "./run.sh %s thorough" % pid,
            "evidence_file": "/verif/evidence/%s.json" % pid,
            "replay_cmd_template": "./run.sh %s --replay {path}" % pid,
            "engine": "vcheck",
            "level_claimed": {"category": cat, "text": text, "design_ref": dref},
            "level_note": note,
            "technique": tech,
        })
    na = [{"property_id": p, "reason": NOT_YET} for p in ALL if p not in CHECKS]
    hooks_commits = os.popen("git -C /repo log --format=%h --grep='^verif:' 2>/dev/null").read().split()
    m = {
        "version": 1,
        "setup_cmd": "./setup.sh",
        "hooks": {
            "guard": "verif",
            "enable": "run.sh copies /repo's working tree to a scratch dir, rewrites sync/time/rand/os imports, go statements and channel operations with tools/mkinst, adds harness/ as verifh/, and builds with `go build -tags verif` (hotline/export_verif.go exports the private entry points)",
            "baseline_off_cmd": "cd /repo && GOFLAGS=-mod=mod GOPROXY=off GOSUMDB=off GOTOOLCHAIN=local go test -vet=off -count=1 ./...",
            "source_commits": hooks_commits,
            "add_only": True,
        },
        "engines": [
            {"name": "vcheck", "path": "/verif/harness", "serves_properties": sorted(CHECKS),
             "kind_free_text": "hand-written model checker for Go: AST instrumenter (tools/mkinst) + cooperative scheduler/virtual clock/in-memory network (harness/vrt) + explorers (harness/explore: E-SCHED deviation-bounded schedule DFS, E-SEQ history BFS, E-ENV environment deviations) driving the real server through byte-level clients (harness/world) against reference models (harness/ref)"},
        ],
        "checks": checks,
        "not_applicable": na,
        "notes": "Exit codes: 0 held (possibly KNOWN-FINDING lines), 1 VIOLATION, 2 the check itself is broken. known_findings.json lists open findings and fixed defects.",
    }
    with open(os.path.join(ROOT, "MANIFEST.json"), "w") as f:
        json.dump(m, f, indent=1)
        f.write("\n")

main()
