#!/usr/bin/env python3
"""Regenerates /verif/MANIFEST.json from the table below (keeps the file valid at all times)."""
import json, os, sys
ROOT = os.path.dirname(os.path.dirname(os.path.abspath(__file__)))
ALL = ["C%02d" % i for i in range(1, 21)]

# id -> (category, technique, level text, level note, design ref)
CHECKS = {
 "C14": ("model_checking",
         "stateless schedule exploration (deviation-bounded DFS under a controlled scheduler) of the real processOutbox/sendTransaction and connection loop",
         "All schedules of 2-3 sender threads / 2 clients x 2 requests that depart from the default schedule at most 2 (quick) or 3 (thorough) times are executed on the real code; every client's byte stream is re-framed by an independent decoder and replies are matched against a request-id ledger.",
         "Scheduling points at sync/channel/spawn/connection operations (sequential consistency between them); Write calls atomic as on TCP; bounded senders and sizes from the stated set.",
         "DESIGN.md §5 C14"),
}
NOT_YET = "check not built yet in this session (see DESIGN.md §11 build order)"

def main():
    checks = []
    for pid in ALL:
        if pid not in CHECKS:
            continue
        cat, tech, text, note, dref = CHECKS[pid]
        checks.append({
            "property_id": pid,
            "quick_cmd": "./run.sh %s quick" % pid,
            "thorough_cmd": "./run.sh %s thorough" % pid,
            "evidence_file": "/verif/evidence/%s.json" % pid,
            "replay_cmd_template": "./run.sh %s --replay {path}" % pid,
            "engine": "vcheck",
            "level_claimed": {"category": cat, "text": text, "design_ref": dref},
            "level_note": note,
            "technique": tech,
        })
    na = [{"property_id": p, "reason": NOT_YET} for p in ALL if p not in CHECKS]
    hooks_commits = os.popen("git -C /repo log --format=%h --grep='^verif:' 2>/dev/null").read().split()
    m = {
        "version": 1,
        "setup_cmd": "./setup.sh",
        "hooks": {
            "guard": "verif",
            "enable": "run.sh copies /repo's working tree to a scratch dir, rewrites sync/time/rand/os imports, go statements and channel operations with tools/mkinst, adds harness/ as verifh/, and builds with `go build -tags verif` (hotline/export_verif.go exports the private entry points)",
            "baseline_off_cmd": "cd /repo && GOFLAGS=-mod=mod GOPROXY=off GOSUMDB=off GOTOOLCHAIN=local go test -vet=off -count=1 ./...",
            "source_commits": hooks_commits,
            "add_only": True,
        },
        "engines": [
            {"name": "vcheck", "path": "/verif/harness", "serves_properties": sorted(CHECKS),
             "kind_free_text": "hand-written model checker for Go: AST instrumenter (tools/mkinst) + cooperative scheduler/virtual clock/in-memory network (harness/vrt) + explorers (harness/explore: E-SCHED deviation-bounded schedule DFS, E-SEQ history BFS, E-ENV environment deviations) driving the real server through byte-level clients (harness/world) against reference models (harness/ref)"},
        ],
        "checks": checks,
        "not_applicable": na,
        "notes": "Exit codes: 0 held (possibly KNOWN-FINDING lines), 1 VIOLATION, 2 the check itself is broken. known_findings.json lists open findings and fixed defects.",
    }
    with open(os.path.join(ROOT, "MANIFEST.json"), "w") as f:
        json.dump(m, f, indent=1)
        f.write("\n")

main()
