#!/bin/bash
# tools/run_seeded.sh [name-pattern]  — run each seeded change against the check of the property it breaks
# (and any extra checks listed in meta.json "also"), record the outcome in seeded/<name>/meta.json and seeded/RESULTS.md.
set -u
cd /verif
PAT="${1:-}"
for d in seeded/*/; do
  n=$(basename "$d"); [ -f "$d/patch.diff" ] || continue
  [ -n "$PAT" ] && [[ "$n" != *$PAT* ]] && continue
  prop=$(python3 -c "import json;print(json.load(open('$d/meta.json'))['property'])")
  checks=$(python3 -c "import json;m=json.load(open('$d/meta.json'));print(' '.join([m['property']]+m.get('also',[])))")
  res=""
  for c in $checks; do
    out=$(./selftest.sh "$d/patch.diff" "$c" quick 2>&1); rc=$?
    if echo "$out" | grep -q "patch does not apply"; then r="patch-does-not-apply"; 
    elif [ $rc = 1 ]; then r="detected: $(echo "$out" | grep -m3 'signature:' | sed 's/.*signature: //' | paste -sd',' )";
    elif [ $rc = 0 ]; then r="MISSED"; else r="check-error(rc=$rc)"; fi
    res="$res$c: $r; "
  done
  echo "$n -> $res"
  python3 - "$d/meta.json" "$res" <<'PY'
import json,sys
p,res=sys.argv[1:3]
m=json.load(open(p)); m['detected_by']=res.strip(); m['checked_at_repo_commit']=__import__('os').popen('git -C /repo rev-parse --short HEAD').read().strip()
json.dump(m,open(p,'w'),indent=1)
PY
done
python3 - <<'PY'
import json,glob,os
rows=[]
for p in sorted(glob.glob('/verif/seeded/*/meta.json')):
    m=json.load(open(p)); rows.append((os.path.basename(os.path.dirname(p)),m.get('property'),m.get('detected_by'),m.get('note','')))
with open('/verif/seeded/RESULTS.md','w') as f:
    f.write("# Seeded changes and which checks catch them\n\n| seeded change | property | outcome (quick tier) | note |\n|---|---|---|---|\n")
    for r in rows: f.write("| %s | %s | %s | %s |\n"%r)
PY
