#!/bin/bash
# ./runorder.sh <tier> <id>... — like runall.sh, for the given checks in the given order
TIER="$1"; shift
cd "$(dirname "$0")"
rc=0
for id in "$@"; do
  out=$(./run.sh $id $TIER 2>&1); r=$?
  echo "$out" | grep -E "^(VIOLATION|KNOWN-FINDING|ERROR)" | cut -c1-200
  echo "$out" | tail -1 | cut -c1-200 | sed "s/^/[exit $r] /"
  [ $r != 0 ] && rc=1
done
exit $rc
