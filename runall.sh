#!/bin/bash
# ./runall.sh [quick|thorough] — run every registered check, print one line each
TIER="${1:-quick}"
cd "$(dirname "$0")"
rc=0
for id in $(python3 -c "import json;print(' '.join(c['property_id'] for c in json.load(open('MANIFEST.json'))['checks']))"); do
  out=$(./run.sh $id $TIER 2>&1); r=$?
  echo "$out" | grep -E "^(VIOLATION|KNOWN-FINDING|ERROR)" | cut -c1-200
  echo "$out" | tail -1 | cut -c1-200 | sed "s/^/[exit $r] /"
  [ $r != 0 ] && rc=1
done
exit $rc
