// Package vatomic replaces sync/atomic in the instrumented copy: every atomic operation is a
// scheduling point (each single operation is atomic; sequences of them are not).
package vatomic

import "github.com/jhalter/mobius/verifh/vrt"

type Uint32 struct{ v uint32 }

func (a *Uint32) Add(d uint32) uint32 { vrt.Point("atomic-add", false, nil); vrt.RaceAcquire(a); defer vrt.RaceRelease(a); a.v += d; return a.v }
func (a *Uint32) Load() uint32        { vrt.Point("atomic-load", false, nil); vrt.RaceAcquire(a); return a.v }
func (a *Uint32) Store(x uint32)      { vrt.Point("atomic-store", false, nil); defer vrt.RaceRelease(a); a.v = x }
func (a *Uint32) CompareAndSwap(o, n uint32) bool {
	vrt.Point("atomic-cas", false, nil)
	vrt.RaceAcquire(a)
	defer vrt.RaceRelease(a)
	if a.v == o {
		a.v = n
		return true
	}
	return false
}

type Int32 struct{ v int32 }

func (a *Int32) Add(d int32) int32 { vrt.Point("atomic-add", false, nil); vrt.RaceAcquire(a); defer vrt.RaceRelease(a); a.v += d; return a.v }
func (a *Int32) Load() int32       { vrt.Point("atomic-load", false, nil); vrt.RaceAcquire(a); return a.v }
func (a *Int32) Store(x int32)     { vrt.Point("atomic-store", false, nil); defer vrt.RaceRelease(a); a.v = x }

type Int64 struct{ v int64 }

func (a *Int64) Add(d int64) int64 { vrt.Point("atomic-add", false, nil); vrt.RaceAcquire(a); defer vrt.RaceRelease(a); a.v += d; return a.v }
func (a *Int64) Load() int64       { vrt.Point("atomic-load", false, nil); vrt.RaceAcquire(a); return a.v }
func (a *Int64) Store(x int64)     { vrt.Point("atomic-store", false, nil); defer vrt.RaceRelease(a); a.v = x }

type Uint64 struct{ v uint64 }

func (a *Uint64) Add(d uint64) uint64 { vrt.Point("atomic-add", false, nil); vrt.RaceAcquire(a); defer vrt.RaceRelease(a); a.v += d; return a.v }
func (a *Uint64) Load() uint64        { vrt.Point("atomic-load", false, nil); vrt.RaceAcquire(a); return a.v }
func (a *Uint64) Store(x uint64)      { vrt.Point("atomic-store", false, nil); defer vrt.RaceRelease(a); a.v = x }

type Bool struct{ v bool }

func (a *Bool) Load() bool   { vrt.Point("atomic-load", false, nil); vrt.RaceAcquire(a); return a.v }
func (a *Bool) Store(x bool) { vrt.Point("atomic-store", false, nil); defer vrt.RaceRelease(a); a.v = x }
