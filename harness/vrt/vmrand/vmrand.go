// Package vmrand replaces math/rand in the instrumented copy with a deterministic counter.
package vmrand

import "github.com/jhalter/mobius/verifh/vrt"

func Uint32() uint32 { return vrt.NextRand() }
func Intn(n int) int { return int(vrt.NextRand()) % n }
func Int() int       { return int(vrt.NextRand()) }
