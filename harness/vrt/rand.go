package vrt

import "encoding/binary"

var randCtr uint32

var forcedRand []uint32

func resetRand() { randCtr = 0x1000; forcedRand = nil }

// ForceRand makes the next draws of the instrumented code's random sources return vals (an environment answer the
// harness decides: two draws that collide, a draw of zero), after which the counter continues.
func ForceRand(vals ...uint32) { forcedRand = append(forcedRand, vals...) }

// NextRand returns the next value of the deterministic counter that replaces every random source
// of the instrumented code (reference numbers, chat ids, transaction ids).
func NextRand() uint32 {
	if len(forcedRand) > 0 {
		v := forcedRand[0]
		forcedRand = forcedRand[1:]
		return v
	}
	randCtr++
	return randCtr
}

// FillRand fills b with counter-derived bytes (4 bytes per counter value, big endian).
func FillRand(b []byte) {
	for i := 0; i < len(b); i += 4 {
		var w [4]byte
		binary.BigEndian.PutUint32(w[:], NextRand())
		copy(b[i:], w[:])
	}
}
