package vrt

import "encoding/binary"

var randCtr uint32

func resetRand() { randCtr = 0x1000 }

// NextRand returns the next value of the deterministic counter that replaces every random source
// of the instrumented code (reference numbers, chat ids, transaction ids).
func NextRand() uint32 {
	randCtr++
	return randCtr
}

// FillRand fills b with counter-derived bytes (4 bytes per counter value, big endian).
func FillRand(b []byte) {
	for i := 0; i < len(b); i += 4 {
		var w [4]byte
		binary.BigEndian.PutUint32(w[:], NextRand())
		copy(b[i:], w[:])
	}
}
