//go:build race

package vrt

import (
	"runtime"
	"unsafe"
)

// With the race detector on, the scheduler's own hand-offs are hidden from it (RaceDisable /
// RaceEnable around every baton pass) so that they do not create happens-before edges between
// managed threads; the shims re-announce the *real* edges (locks, channel hand-offs, connection
// data flow, spawn) with RaceAcquire / RaceRelease. The detector then acts as a happens-before
// oracle over every schedule the explorer enumerates.
const RaceEnabled = true

func raceDisable() { runtime.RaceDisable() }
func raceEnable()  { runtime.RaceEnable() }

type eface struct{ typ, data unsafe.Pointer }

func addrOf(p interface{}) unsafe.Pointer { return (*eface)(unsafe.Pointer(&p)).data }

func RaceAcquire(p interface{}) { runtime.RaceAcquire(addrOf(p)) }
func RaceRelease(p interface{}) { runtime.RaceRelease(addrOf(p)) }
