// Package vcrand replaces crypto/rand in the instrumented copy with a deterministic counter.
package vcrand

import "github.com/jhalter/mobius/verifh/vrt"

func Read(b []byte) (int, error) {
	vrt.FillRand(b)
	return len(b), nil
}
