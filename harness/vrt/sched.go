// Package vrt is the virtual runtime under which the instrumented mobius code runs: a cooperative
// scheduler (one managed thread runs at a time; every lock, channel, spawn, sleep and connection
// operation is a scheduling point), a virtual clock, and in-memory connections.
package vrt

import (
	"fmt"
	"runtime"
	"runtime/debug"
	"sort"
	"strings"
	"time"
)

// S is the scheduler of the execution in progress (nil outside an execution: the shims then
// degrade to plain, uncontended semantics).
var S *Sched

// UnlockPoints makes every mutex release a scheduling point as well.  For data-race-free code that
// adds nothing (switching at acquisitions reaches every behaviour); a harness sets it to reach code
// that keeps using shared data after it let go of the lock.
var UnlockPoints bool

// Epoch is the virtual instant at which every execution starts.
var Epoch = time.Date(2024, time.March, 5, 10, 0, 0, 0, time.UTC)

type Thread struct {
	ID   int
	Name string

	wake     chan bool // true = run, false = abort
	cond     func() bool
	What     string // what it is blocked on / about to do
	Idle     bool   // blocked in one of the server's idle states (connection read, accept, outbox receive)
	started  bool
	done     bool
	aborting bool
	quiet    bool // parked in WaitQuiet
	sleeping bool
	wakeAt   time.Time
	Panic    string // non-empty: the thread died with an un-recovered panic
	fn       func()
}

// Decision is one recorded scheduling choice (only points with more than one enabled thread are recorded).
type Decision struct {
	Enabled    []int // thread ids in canonical order
	Chosen     int   // index into Enabled
	CurEnabled bool  // Enabled[0] is the thread that was running (choosing another index is a preemption)
	What       []string
}

// Suspend is the special choice "hold the default thread (Enabled[0]) back until no other thread can
// run, and continue with Enabled[1]".
const Suspend = -1

// Chooser picks the index of the next thread among n>1 enabled ones.
type Chooser interface {
	Choose(d *Decision, step int) int
}

type DefaultChooser struct{}

func (DefaultChooser) Choose(*Decision, int) int { return 0 }

// ReplayChooser replays Prefix and then always takes 0.
type ReplayChooser struct {
	Prefix []int
	Err    error
}

func (r *ReplayChooser) Choose(d *Decision, step int) int {
	if step < len(r.Prefix) {
		c := r.Prefix[step]
		if c == Suspend {
			return c
		}
		if c < 0 || c >= len(d.Enabled) {
			if r.Err == nil {
				r.Err = fmt.Errorf("replay divergence at decision %d: choice %d of %d enabled", step, c, len(d.Enabled))
			}
			return 0
		}
		return c
	}
	return 0
}

type Status int

const (
	StatusDone    Status = iota // main returned
	StatusStuck                 // no enabled thread and main not waiting for quiescence
	StatusHorizon               // step horizon hit
)

type Sched struct {
	Threads   []*Thread
	cur       *Thread
	last      *Thread
	yield     chan struct{}
	chooser   Chooser
	Decisions []Decision
	Steps     int
	Reverse   bool
	MaxSteps  int
	Now       time.Time
	Status    Status
	chans     map[interface{}]*chanState
	Log       []string // observation log (harness use)
	aborted   bool
	setup     bool // set-up phase: default choices, nothing recorded
	suspended map[*Thread]bool
}

// BeginSetup / EndSetup bracket a set-up phase of the harness (logins etc.) during which the
// default schedule is followed and no decision is recorded or explored.
func BeginSetup() {
	if S != nil {
		S.setup = true
	}
}
func EndSetup() {
	if S != nil {
		S.setup = false
		S.last = S.cur
	}
}

type chanState struct {
	recvWaiting int
	handoff     []interface{}
}

// Run executes main as thread 0 under chooser until main returns (or nothing can run, or the
// horizon is hit), then releases every remaining thread in abort mode.
func Run(chooser Chooser, maxSteps int, main func()) *Sched {
	if S != nil {
		panic("vrt: nested Run")
	}
	s := &Sched{yield: make(chan struct{}), chooser: chooser, MaxSteps: maxSteps, Now: Epoch, chans: map[interface{}]*chanState{}}
	CondWakeups = 0
	S = s
	resetRand()
	mainT := s.spawn("main", main)
	for {
		if mainT.done {
			s.Status = StatusDone
			break
		}
		en := s.enabled()
		if len(en) == 0 {
			// nothing can run at the current virtual time
			var q *Thread
			for _, t := range s.Threads {
				if !t.done && t.quiet {
					q = t
					break
				}
			}
			if q == nil {
				s.Status = StatusStuck
				break
			}
			q.quiet = false
			en = []*Thread{q}
		}
		idx := 0
		if len(en) > 1 && !s.setup {
			d := Decision{CurEnabled: s.last != nil && en[0] == s.last}
			for _, t := range en {
				d.Enabled = append(d.Enabled, t.ID)
				d.What = append(d.What, t.Name+":"+t.What)
			}
			idx = s.chooser.Choose(&d, len(s.Decisions))
			if idx == Suspend {
				// hold the default thread back until nothing else can run; continue with the next one
				if s.suspended == nil {
					s.suspended = map[*Thread]bool{}
				}
				s.suspended[en[0]] = true
				d.Chosen = Suspend
				s.Decisions = append(s.Decisions, d)
				idx = 1
			} else {
				if idx < 0 || idx >= len(en) {
					idx = 0
				}
				d.Chosen = idx
				s.Decisions = append(s.Decisions, d)
			}
		}
		t := en[idx]
		s.Steps++
		if s.MaxSteps > 0 && s.Steps > s.MaxSteps {
			s.Status = StatusHorizon
			break
		}
		s.cur = t
		s.last = t
		raceDisable()
		t.wake <- true
		<-s.yield
		raceEnable()
		s.cur = nil
	}
	s.abortAll()
	S = nil
	return s
}

func (s *Sched) enabled() []*Thread {
	en := s.enabledFiltered(true)
	if len(en) == 0 && len(s.suspended) > 0 {
		// only suspended threads can run: release them all
		s.suspended = nil
		en = s.enabledFiltered(true)
	}
	return en
}

func (s *Sched) enabledFiltered(skipSuspended bool) []*Thread {
	var en []*Thread
	var first *Thread
	for _, t := range s.Threads {
		if t.done || t.quiet {
			continue
		}
		if t.cond != nil && !t.cond() {
			continue
		}
		if skipSuspended && s.suspended[t] {
			continue
		}
		if t == s.last {
			first = t
			continue
		}
		en = append(en, t)
	}
	if first != nil {
		en = append([]*Thread{first}, en...)
	}
	if s.Reverse {
		// adversarial default: the thread spawned last runs first, the running thread gets no preference
		sort.Slice(en, func(i, j int) bool { return en[i].ID > en[j].ID })
	}
	return en
}

// ReverseDefault switches the canonical order of enabled threads to "spawned last first" (and back): a harness uses
// it to measure the work a piece of code does under an unfavourable schedule.  It is part of the execution (set by
// the harness body at a fixed point), so explored schedules replay unchanged.
func ReverseDefault(on bool) {
	if S != nil {
		S.Reverse = on
	}
}

func (s *Sched) spawn(name string, fn func()) *Thread {
	t := &Thread{ID: len(s.Threads), Name: name, wake: make(chan bool), What: "start", fn: fn}
	s.Threads = append(s.Threads, t)
	go func() {
		raceDisable()
		ok := <-t.wake
		raceEnable()
		defer func() {
			if r := recover(); r != nil {
				t.Panic = fmt.Sprintf("%v\n%s", r, debug.Stack())
			}
			t.done = true
			raceDisable()
			s.yield <- struct{}{}
			raceEnable()
		}()
		if !ok {
			t.aborting = true
			return
		}
		t.started = true
		t.cond = nil
		fn()
	}()
	return t
}

func (s *Sched) abortAll() {
	s.aborted = true
	for _, t := range s.Threads {
		if t.done {
			continue
		}
		s.cur = t
		raceDisable()
		t.wake <- false
		<-s.yield
		raceEnable()
	}
	s.cur = nil
}

// Point is a scheduling point of the running thread: it parks until cond (nil = always) holds and
// the chooser selects it.
func Point(what string, idle bool, cond func() bool) {
	s := S
	if s == nil || s.cur == nil {
		if cond != nil && !cond() {
			panic("vrt: operation would block outside the scheduler: " + what)
		}
		return
	}
	t := s.cur
	if t.aborting {
		return
	}
	t.What, t.Idle, t.cond = what, idle, cond
	RaceRelease(&quietToken) // whoever observes the world at quiescence comes after everything done so far
	raceDisable()
	s.yield <- struct{}{}
	ok := <-t.wake
	raceEnable()
	if !ok {
		t.aborting = true
		runtime.Goexit()
	}
	t.cond = nil
	t.Idle = false
}

var quietToken int

// Unmanaged runs f with the scheduling points switched off (harness set-up loops that would
// otherwise cost hundreds of thousands of points). Only legal while no other thread can interfere,
// i.e. from the main thread before it has let anything else run concurrently with f's data.
func Unmanaged(f func()) {
	s := S
	if s == nil || s.cur == nil {
		f()
		return
	}
	cur := s.cur
	s.cur = nil
	defer func() { s.cur = cur }()
	f()
}

// Aborting reports whether the calling (running) thread is being released in abort mode.
func Aborting() bool {
	s := S
	return s != nil && s.cur != nil && s.cur.aborting
}

// Managed reports whether the caller runs as a managed thread of an execution.
func Managed() bool { return S != nil && S.cur != nil }

// Yield is a plain scheduling point.
func Yield(what string) { Point(what, false, nil) }

// WaitQuiet parks the calling thread until no other thread can run at the current virtual time.
func WaitQuiet() {
	s := S
	if s == nil || s.cur == nil {
		panic("vrt: WaitQuiet outside scheduler")
	}
	t := s.cur
	if t.aborting {
		return
	}
	t.quiet = true
	t.What = "wait-quiet"
	RaceRelease(&quietToken)
	raceDisable()
	s.yield <- struct{}{}
	ok := <-t.wake
	raceEnable()
	if !ok {
		t.aborting = true
		runtime.Goexit()
	}
	RaceAcquire(&quietToken)
}

// Settle runs the world to quiescence, jumping the virtual clock forward to sleepers' wake-ups as
// long as they lie within max of the current instant.
func Settle(max time.Duration) {
	s := S
	limit := s.Now.Add(max)
	for {
		WaitQuiet()
		next, ok := s.nextWake()
		if !ok || next.After(limit) {
			return
		}
		if next.After(s.Now) {
			s.Now = next
		}
	}
}

// Advance moves the virtual clock.
func Advance(d time.Duration) { S.Now = S.Now.Add(d) }

func (s *Sched) nextWake() (time.Time, bool) {
	var best time.Time
	found := false
	for _, t := range s.Threads {
		if !t.done && t.sleeping {
			if !found || t.wakeAt.Before(best) {
				best, found = t.wakeAt, true
			}
		}
	}
	return best, found
}

// BlockedInfo describes a thread that is parked and cannot run.
type BlockedInfo struct {
	Name, What     string
	Idle, Sleeping bool
}

// Blocked lists the threads (other than the caller) that are alive and cannot currently run.
func Blocked() []BlockedInfo {
	s := S
	var out []BlockedInfo
	for _, t := range s.Threads {
		if t.done || t == s.cur || t.quiet {
			continue
		}
		if t.cond != nil && !t.cond() {
			out = append(out, BlockedInfo{t.Name, t.What, t.Idle, t.sleeping})
		}
	}
	return out
}

// Wedged returns the threads that are blocked on something other than an idle state or a sleep
// (a lock, a rendezvous, a wait group): with nothing enabled this is a deadlock.
func Wedged() []string {
	var w []string
	for _, b := range Blocked() {
		if !b.Idle && !b.Sleeping {
			w = append(w, b.Name+":"+b.What)
		}
	}
	sort.Strings(w)
	return w
}

// Panics returns "thread: first line" for every thread that died with an un-recovered panic.
func (s *Sched) Panics() []string {
	var out []string
	for _, t := range s.Threads {
		if t.Panic != "" {
			out = append(out, t.Name+": "+t.Panic)
		}
	}
	return out
}

// PanicSite extracts the top-most repo function of a recorded panic stack.
func PanicSite(p string) string {
	lines := strings.Split(p, "\n")
	for _, l := range lines {
		l = strings.TrimSpace(l)
		if strings.HasPrefix(l, "github.com/jhalter/mobius/") && !strings.Contains(l, "/verifh/") {
			if i := strings.Index(l, "("); i > 0 {
				l = l[:i]
			}
			return strings.TrimPrefix(l, "github.com/jhalter/mobius/")
		}
	}
	return "unknown"
}

// Choices returns the chosen indices of the recorded decisions.
func (s *Sched) Choices() []int {
	c := make([]int, len(s.Decisions))
	for i, d := range s.Decisions {
		c[i] = d.Chosen
	}
	return c
}

// CondWakeups counts the goroutines readied by sync.Cond.Broadcast calls (reset by Run): a deterministic measure of
// work that the step count of a cooperative schedule does not show.
var CondWakeups int

// ---- spawn helpers used by the rewritten `go` statements ----

func goThread(name string, fn func()) {
	s := S
	if s == nil || s.cur == nil {
		go fn()
		return
	}
	if s.cur.aborting {
		return
	}
	s.spawn(name, fn)
}

func callerName() string {
	pc, _, line, ok := runtime.Caller(2)
	if !ok {
		return "go"
	}
	n := runtime.FuncForPC(pc).Name()
	if i := strings.LastIndex(n, "/"); i >= 0 {
		n = n[i+1:]
	}
	return fmt.Sprintf("%s:%d", n, line)
}

func Go0(f func())                                  { goThread(callerName(), f) }
func Go1[A any](f func(A), a A)                     { goThread(callerName(), func() { f(a) }) }
func Go2[A, B any](f func(A, B), a A, b B)          { goThread(callerName(), func() { f(a, b) }) }
func Go3[A, B, C any](f func(A, B, C), a A, b B, c C) { goThread(callerName(), func() { f(a, b, c) }) }

// GoNamed spawns a managed thread with an explicit name (harness use).
func GoNamed(name string, f func()) { goThread(name, f) }

// ---- channels (rendezvous / bounded queue emulation) ----

func (s *Sched) ch(c interface{}) *chanState {
	st := s.chans[c]
	if st == nil {
		st = &chanState{}
		s.chans[c] = st
	}
	return st
}

// Send emulates `c <- v`: on an unbuffered channel it completes when a receiver is waiting, on a
// buffered one also while fewer than cap(c) values are queued.
func Send[T any](c chan T, v T) {
	s := S
	if s == nil || s.cur == nil {
		c <- v
		return
	}
	if s.cur.aborting {
		return
	}
	st := s.ch(c)
	Point("chan-send", false, func() bool { return st.recvWaiting+cap(c) > len(st.handoff) })
	RaceRelease(st)
	st.handoff = append(st.handoff, v)
}

// Recv emulates `<-c`.
func Recv[T any](c chan T) T {
	s := S
	if s == nil || s.cur == nil {
		return <-c
	}
	var zero T
	if s.cur.aborting {
		return zero
	}
	st := s.ch(c)
	st.recvWaiting++
	Point("chan-recv", true, func() bool { return len(st.handoff) > 0 })
	st.recvWaiting--
	RaceAcquire(st)
	v := st.handoff[0].(T)
	st.handoff = st.handoff[1:]
	return v
}

// ---- time ----

func Now() time.Time {
	if S == nil {
		return Epoch
	}
	return S.Now
}

func Sleep(d time.Duration) {
	s := S
	if s == nil || s.cur == nil {
		return
	}
	t := s.cur
	if t.aborting {
		return
	}
	t.sleeping = true
	t.wakeAt = s.Now.Add(d)
	Point("sleep", false, func() bool { return !s.Now.Before(t.wakeAt) })
	t.sleeping = false
}
