// Package vtime replaces package time in the instrumented copy: Now and Sleep use the virtual
// clock of the running execution, everything else is the real package.
package vtime

import (
	"time"

	"github.com/jhalter/mobius/verifh/vrt"
)

type (
	Time     = time.Time
	Duration = time.Duration
	Month    = time.Month
	Location = time.Location
	Ticker   = time.Ticker
	Timer    = time.Timer
)

const (
	Nanosecond  = time.Nanosecond
	Microsecond = time.Microsecond
	Millisecond = time.Millisecond
	Second      = time.Second
	Minute      = time.Minute
	Hour        = time.Hour

	January = time.January

	Layout   = time.Layout
	RFC3339  = time.RFC3339
	RFC1123  = time.RFC1123
	RFC822   = time.RFC822
	Kitchen  = time.Kitchen
	DateTime = time.DateTime
)

var (
	Local = time.Local
	UTC   = time.UTC
)

func Now() Time        { return vrt.Now() }
func Sleep(d Duration) { vrt.Sleep(d) }
func Since(t Time) Duration { return vrt.Now().Sub(t) }
func Until(t Time) Duration { return t.Sub(vrt.Now()) }

func Date(year int, month Month, day, hour, min, sec, nsec int, loc *Location) Time {
	return time.Date(year, month, day, hour, min, sec, nsec, loc)
}
func Parse(layout, value string) (Time, error) { return time.Parse(layout, value) }
func NewTicker(d Duration) *Ticker               { return time.NewTicker(d) }
func Unix(sec, nsec int64) Time                  { return time.Unix(sec, nsec) }
