//go:build !race

package vsync

func raceAcquire(p interface{}) {}
func raceRelease(p interface{}) {}
