// Package vsync replaces package sync in the instrumented copy: every lock operation is a
// scheduling point of the virtual runtime.
package vsync

import (
	"github.com/jhalter/mobius/verifh/vrt"
)

type Mutex struct {
	held bool
}

func (m *Mutex) Lock() {
	vrt.Point("lock", false, func() bool { return !m.held })
	vrt.RaceAcquire(m)
	m.held = true
}

func (m *Mutex) TryLock() bool {
	vrt.Point("trylock", false, nil)
	if m.held {
		return false
	}
	vrt.RaceAcquire(m)
	m.held = true
	return true
}

func (m *Mutex) Unlock() {
	if !m.held && !vrt.Aborting() {
		panic("vsync: unlock of unlocked mutex")
	}
	vrt.RaceRelease(m)
	m.held = false
	if vrt.UnlockPoints && !vrt.Aborting() {
		vrt.Point("unlock", false, nil)
	}
}

type RWMutex struct {
	writer  bool
	readers int
}

func (m *RWMutex) Lock() {
	vrt.Point("rwlock", false, func() bool { return !m.writer && m.readers == 0 })
	vrt.RaceAcquire(m)
	m.writer = true
}

func (m *RWMutex) Unlock() {
	if !m.writer && !vrt.Aborting() {
		panic("vsync: unlock of unlocked rwmutex")
	}
	vrt.RaceRelease(m)
	m.writer = false
	if vrt.UnlockPoints && !vrt.Aborting() {
		vrt.Point("rwunlock", false, nil)
	}
}

func (m *RWMutex) RLock() {
	vrt.Point("rlock", false, func() bool { return !m.writer })
	vrt.RaceAcquire(m)
	m.readers++
}

func (m *RWMutex) RUnlock() {
	if m.readers <= 0 && !vrt.Aborting() {
		panic("vsync: runlock of unlocked rwmutex")
	}
	vrt.RaceRelease(m)
	if m.readers > 0 {
		m.readers--
	}
}

type WaitGroup struct {
	n int
}

func (w *WaitGroup) Add(d int) { w.n += d }
func (w *WaitGroup) Done()     { w.n-- }
func (w *WaitGroup) Wait() {
	vrt.Point("wg-wait", false, func() bool { return w.n <= 0 })
}

// Locker mirrors sync.Locker.
type Locker interface {
	Lock()
	Unlock()
}

// Cond mirrors sync.Cond: Wait releases the lock, blocks until a Signal/Broadcast that comes after it,
// and takes the lock again (callers re-check their condition in a loop, so a Signal may wake everybody).
type Cond struct {
	L       Locker
	gen     int
	waiters int
}

func NewCond(l Locker) *Cond { return &Cond{L: l} }

func (c *Cond) Wait() {
	g := c.gen
	c.L.Unlock()
	c.waiters++
	vrt.Point("cond-wait", false, func() bool { return c.gen != g })
	c.waiters--
	vrt.RaceAcquire(c)
	c.L.Lock()
}

func (c *Cond) Signal() {
	vrt.RaceRelease(c)
	c.gen++
}

// Broadcast readies every waiter, as the runtime does; each of them takes the lock and re-checks its condition.  The
// cooperative scheduler would let the one whose condition holds run first and never show that cost, so it is counted.
func (c *Cond) Broadcast() {
	vrt.RaceRelease(c)
	c.gen++
	vrt.CondWakeups += c.waiters
}
