//go:build race

package vsync

import (
	"runtime"
	"unsafe"
)

type eface struct {
	typ, data unsafe.Pointer
}

func addr(p interface{}) unsafe.Pointer { return (*eface)(unsafe.Pointer(&p)).data }

// Re-announce the real happens-before edges of the lock to the race detector (the scheduler's own
// hand-offs are hidden from it with RaceDisable/RaceEnable).
func raceAcquire(p interface{}) { runtime.RaceAcquire(addr(p)) }
func raceRelease(p interface{}) { runtime.RaceRelease(addr(p)) }
