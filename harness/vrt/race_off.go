//go:build !race

package vrt

const RaceEnabled = false

func raceDisable()               {}
func raceEnable()                {}
func RaceAcquire(p interface{})  {}
func RaceRelease(p interface{})  {}
