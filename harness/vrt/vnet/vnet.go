// Package vnet provides in-memory connections whose server-side Read/Write are scheduling points.
// A Write call appends one atomic chunk to the peer's log (calls from different threads may
// interleave: exactly TCP's guarantee); a Read returns at most the next scripted segment.
package vnet

import (
	"errors"
	"io"
	"net"

	"github.com/jhalter/mobius/verifh/vrt"
)

var ErrClosed = errors.New("use of closed network connection")
var ErrReset = errors.New("connection reset by peer")

type Conn struct {
	Name string
	Addr *net.TCPAddr

	in      [][]byte // segments the server has not read yet
	inEOF   bool     // client closed: Read returns io.EOF once drained
	inReset bool     // connection cut: Read fails once drained

	Out      [][]byte // chunks written by the server (one per Write call)
	drained  int      // number of chunks already taken by Take()
	Closed   bool     // closed by the server side
	Stalled  bool     // peer does not read: server Write blocks
	OutBytes int
	Writers  []int // id of the writing thread per chunk (diagnostics)
}

func NewConn(name, addr string) *Conn {
	a, err := net.ResolveTCPAddr("tcp", addr)
	if err != nil {
		panic(err)
	}
	return &Conn{Name: name, Addr: a}
}

func (c *Conn) RemoteAddr() net.Addr { return c.Addr }
func (c *Conn) LocalAddr() net.Addr  { return &net.TCPAddr{IP: net.IPv4(127, 0, 0, 1), Port: 5500} }

// ---- server side ----

func (c *Conn) Read(p []byte) (int, error) {
	if vrt.Aborting() {
		return 0, ErrClosed
	}
	vrt.Point("conn-read "+c.Name, true, func() bool { return len(c.in) > 0 || c.inEOF || c.inReset || c.Closed })
	vrt.RaceAcquire(c)
	if c.Closed {
		return 0, ErrClosed
	}
	if len(c.in) == 0 {
		if c.inReset {
			return 0, ErrReset
		}
		return 0, io.EOF
	}
	if len(p) == 0 {
		return 0, nil
	}
	seg := c.in[0]
	n := copy(p, seg)
	if n == len(seg) {
		c.in = c.in[1:]
	} else {
		c.in[0] = seg[n:]
	}
	return n, nil
}

func (c *Conn) Write(p []byte) (int, error) {
	if vrt.Aborting() {
		return len(p), nil
	}
	vrt.Point("conn-write "+c.Name, false, func() bool { return !c.Stalled || c.Closed })
	if c.Closed {
		return 0, ErrClosed
	}
	if c.inReset {
		return 0, ErrReset
	}
	b := make([]byte, len(p))
	copy(b, p)
	vrt.RaceRelease(c)
	c.Out = append(c.Out, b)
	c.OutBytes += len(b)
	return len(p), nil
}

func (c *Conn) Close() error {
	vrt.RaceRelease(c)
	if c.Closed {
		return ErrClosed
	}
	c.Closed = true
	return nil
}

// ---- client side (harness) ----

// Feed delivers b to the server as one read segment.
func (c *Conn) Feed(b []byte) {
	if len(b) == 0 {
		return
	}
	vrt.Point("client-write "+c.Name, false, nil)
	vrt.RaceRelease(c)
	c.in = append(c.in, append([]byte(nil), b...))
}

// FeedSplit delivers b cut into segments at the given ascending offsets.
func (c *Conn) FeedSplit(b []byte, cuts []int) {
	prev := 0
	for _, k := range cuts {
		if k <= prev || k >= len(b) {
			continue
		}
		c.in = append(c.in, append([]byte(nil), b[prev:k]...))
		prev = k
	}
	c.in = append(c.in, append([]byte(nil), b[prev:]...))
}

// FeedChunks delivers b in segments of at most n bytes.
func (c *Conn) FeedChunks(b []byte, n int) {
	for len(b) > 0 {
		k := n
		if k > len(b) {
			k = len(b)
		}
		c.in = append(c.in, append([]byte(nil), b[:k]...))
		b = b[k:]
	}
}

// CloseWrite makes the server see EOF after the pending segments.
func (c *Conn) CloseWrite() { c.inEOF = true }

// Reset cuts the connection: pending segments are still readable, then reads and writes fail.
func (c *Conn) Reset() { c.inReset = true }

// Pending reports how many bytes the server has not read yet.
func (c *Conn) Pending() int {
	n := 0
	for _, s := range c.in {
		n += len(s)
	}
	return n
}

// Take returns the bytes written by the server since the previous Take.
func (c *Conn) Take() []byte {
	var b []byte
	for _, ch := range c.Out[c.drained:] {
		b = append(b, ch...)
	}
	c.drained = len(c.Out)
	return b
}

// All returns every byte the server has written so far.
func (c *Conn) All() []byte {
	var b []byte
	for _, ch := range c.Out {
		b = append(b, ch...)
	}
	return b
}

// ---- listener ----

type Listener struct {
	pending []*Conn
	closed  bool
}

func (l *Listener) Accept() (net.Conn, error) {
	vrt.Point("accept", true, func() bool { return len(l.pending) > 0 || l.closed })
	if len(l.pending) == 0 {
		return nil, ErrClosed
	}
	c := l.pending[0]
	l.pending = l.pending[1:]
	return netConn{c}, nil
}
func (l *Listener) Close() error   { l.closed = true; return nil }
func (l *Listener) Addr() net.Addr { return &net.TCPAddr{IP: net.IPv4(127, 0, 0, 1), Port: 5500} }
func (l *Listener) Dial(c *Conn)   { l.pending = append(l.pending, c) }
