package vnet

import (
	"net"
	"time"
)

// netConn adapts *Conn to net.Conn (deadlines are ignored).
type netConn struct{ *Conn }

func (netConn) SetDeadline(time.Time) error      { return nil }
func (netConn) SetReadDeadline(time.Time) error  { return nil }
func (netConn) SetWriteDeadline(time.Time) error { return nil }

var _ net.Conn = netConn{}
