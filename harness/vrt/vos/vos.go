// Package vos replaces package os in the persistent stores of the instrumented copy. It passes
// everything through to the real file system but decomposes every mutating call into the system
// calls it makes (open/create/truncate, write, close, rename, unlink) and announces each one to an
// optional hook *before* it is executed — the hook may end the calling goroutine there, which
// leaves the directory exactly as a process kill between two system calls would.
package vos

import (
	"errors"
	"io/fs"
	"os"

	"github.com/jhalter/mobius/verifh/vrt"
)

type (
	FileMode = os.FileMode
	FileInfo = os.FileInfo
)

const (
	O_RDONLY = os.O_RDONLY
	O_WRONLY = os.O_WRONLY
	O_RDWR   = os.O_RDWR
	O_APPEND = os.O_APPEND
	O_CREATE = os.O_CREATE
	O_EXCL   = os.O_EXCL
	O_SYNC   = os.O_SYNC
	O_TRUNC  = os.O_TRUNC
)

const ModeSymlink = os.ModeSymlink

var (
	ErrNotExist = os.ErrNotExist
	ErrExist    = os.ErrExist
)

// Step is one file-mutating system call about to be executed.
type Step struct {
	Op   string // open, write, close, rename, unlink
	Path string
	Arg  string
}

// Hook, when non-nil, is called before every step.
var Hook func(Step)

// Dead is set by a hook that "kills the process": from then on no step has any effect on the file
// system (a goroutine ended with Goexit still runs its deferred calls — a deferred Flush or Close
// of a killed process never happens).
var Dead bool

var ErrDead = errors.New("vos: the process was killed")

func step(op, path, arg string) bool {
	if Dead {
		return false
	}
	// a file-mutating system call is visible to other threads: scheduling point
	vrt.Point("fs-"+op, false, nil)
	if Hook != nil {
		Hook(Step{op, path, arg})
	}
	return !Dead
}

func flagString(flag int) string {
	s := ""
	if flag&os.O_CREATE != 0 {
		s += "C"
	}
	if flag&os.O_EXCL != 0 {
		s += "X"
	}
	if flag&os.O_TRUNC != 0 {
		s += "T"
	}
	if flag&os.O_APPEND != 0 {
		s += "A"
	}
	if flag&(os.O_WRONLY|os.O_RDWR) != 0 {
		s += "W"
	}
	return s
}

// VFile wraps a file opened for writing.
type VFile struct {
	f    *os.File
	path string
}

func (v *VFile) Write(b []byte) (int, error) {
	if !step("write", v.path, "") {
		return 0, ErrDead
	}
	return v.f.Write(b)
}
func (v *VFile) Close() error {
	if !step("close", v.path, "") {
		_ = v.f.Close() // the kernel closes a dead process's descriptors: no effect on the directory
		return ErrDead
	}
	return v.f.Close()
}
func (v *VFile) WriteString(s string) (int, error) {
	if !step("write", v.path, "") {
		return 0, ErrDead
	}
	return v.f.WriteString(s)
}
func (v *VFile) Sync() error {
	if !step("fsync", v.path, "") {
		return ErrDead
	}
	return v.f.Sync()
}
func (v *VFile) Truncate(size int64) error {
	if !step("truncate", v.path, "") {
		return ErrDead
	}
	return v.f.Truncate(size)
}
func (v *VFile) Seek(offset int64, whence int) (int64, error) { return v.f.Seek(offset, whence) }
func (v *VFile) Stat() (FileInfo, error)                      { return v.f.Stat() }
func (v *VFile) Read(b []byte) (int, error)                   { return v.f.Read(b) }
func (v *VFile) Name() string               { return v.f.Name() }

func OpenFile(name string, flag int, perm FileMode) (*VFile, error) {
	if flag&(os.O_WRONLY|os.O_RDWR|os.O_CREATE|os.O_TRUNC) != 0 {
		if !step("open", name, flagString(flag)) {
			return nil, ErrDead
		}
	}
	f, err := os.OpenFile(name, flag, perm)
	if err != nil {
		return nil, err
	}
	return &VFile{f, name}, nil
}

// WriteFile = open(O_WRONLY|O_CREATE|O_TRUNC), write, close — as os.WriteFile does.
func WriteFile(name string, data []byte, perm FileMode) error {
	if !step("open", name, "CTW") {
		return ErrDead
	}
	f, err := os.OpenFile(name, os.O_WRONLY|os.O_CREATE|os.O_TRUNC, perm)
	if err != nil {
		return err
	}
	if !step("write", name, "") {
		_ = f.Close()
		return ErrDead
	}
	_, err = f.Write(data)
	if !step("close", name, "") {
		_ = f.Close()
		return ErrDead
	}
	if err1 := f.Close(); err1 != nil && err == nil {
		err = err1
	}
	return err
}

func Rename(oldpath, newpath string) error {
	if !step("rename", oldpath, newpath) {
		return ErrDead
	}
	return os.Rename(oldpath, newpath)
}

func Remove(name string) error {
	if !step("unlink", name, "") {
		return ErrDead
	}
	return os.Remove(name)
}

func Create(name string) (*VFile, error) {
	return OpenFile(name, os.O_RDWR|os.O_CREATE|os.O_TRUNC, 0666)
}

func Open(name string) (*os.File, error)            { return os.Open(name) }
func ReadFile(name string) ([]byte, error)          { return os.ReadFile(name) }
func Stat(name string) (FileInfo, error)            { return os.Stat(name) }
func IsNotExist(err error) bool                     { return os.IsNotExist(err) }
func IsExist(err error) bool                        { return os.IsExist(err) }
// ReadDir is a scheduling point, and so is the Info call of every entry it returns: a listing reads the directory
// first and examines the entries afterwards, other threads may rename or remove them in between.
func ReadDir(name string) ([]fs.DirEntry, error) {
	vrt.Point("fs-readdir", false, nil)
	es, err := os.ReadDir(name)
	for i := range es {
		es[i] = dirEntry{es[i]}
	}
	return es, err
}

type dirEntry struct{ fs.DirEntry }

func (d dirEntry) Info() (fs.FileInfo, error) {
	vrt.Point("fs-lstat", false, nil)
	return d.DirEntry.Info()
}

func Readlink(name string) (string, error) { return os.Readlink(name) }
func MkdirAll(path string, perm FileMode) error     { return os.MkdirAll(path, perm) }
