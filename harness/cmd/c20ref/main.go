// c20ref performs one persistent update with the UNINSTRUMENTED stores (it is built before the
// scratch copy is rewritten) so that its system calls can be traced and compared with the step
// decomposition of the vos shim.
//
// usage: c20ref <configdir> <update>
package main

import (
	"fmt"
	"os"
	"path/filepath"
	"runtime"
	"strconv"
	"strings"
	"time"

	"github.com/jhalter/mobius/hotline"
	"github.com/jhalter/mobius/internal/mobius"
)

// All file system calls of the update are made by the main goroutine; pinning it to the main thread
// lets strace (which counts system calls per thread) address "the j-th call" deterministically.
func init() { runtime.LockOSThread() }

func main() {
	dir, op := os.Args[1], os.Args[2]
	if err := Apply(dir, op); err != nil {
		fmt.Println("update returned:", err)
	}
}

// Apply mirrors props.c20Apply (kept textually in sync; both are trivial dispatchers).
func Apply(dir, op string) error {
	p := strings.Split(op, ":")
	for i := range p { // %XX stands for the byte XX (as in props.opSplit)
		var b []byte
		for j := 0; j < len(p[i]); j++ {
			if p[i][j] == '%' && j+3 <= len(p[i]) {
				if v, err := strconv.ParseUint(p[i][j+1:j+3], 16, 8); err == nil {
					b = append(b, byte(v))
					j += 2
					continue
				}
			}
			b = append(b, p[i][j])
		}
		p[i] = string(b)
	}
	switch p[0] {
	case "board":
		s, err := mobius.NewFlatNews(filepath.Join(dir, "MessageBoard.txt"))
		if err != nil {
			return err
		}
		fmt.Fprintln(os.Stderr, "MARK")
		_, err = s.Write([]byte("post-" + p[1] + "\r"))
		return err
	case "newsgrp", "newspost", "newsdelart", "newsdelitem":
		s, err := mobius.NewThreadedNewsYAML(filepath.Join(dir, "ThreadedNews.yaml"))
		if err != nil {
			return err
		}
		fmt.Fprintln(os.Stderr, "MARK")
		have := false
		for _, c := range s.GetCategories(nil) {
			if c.Name == p[1] {
				have = true
			}
		}
		switch p[0] {
		case "newsgrp":
			if have {
				return fmt.Errorf("exists")
			}
			return s.CreateGrouping(nil, p[1], hotline.NewsCategory)
		case "newspost":
			if !have {
				return fmt.Errorf("no such category")
			}
			return s.PostArticle([]string{p[1]}, 0, hotline.NewsArtData{Title: p[2], Poster: "p", Data: "body " + p[2]})
		case "newsdelart":
			if s.GetArticle([]string{p[1]}, 1) == nil {
				return fmt.Errorf("no such article")
			}
			return s.DeleteArticle([]string{p[1]}, 1, false)
		default:
			if !have {
				return fmt.Errorf("no such item")
			}
			return s.DeleteNewsItem([]string{p[1]})
		}
	case "acctnew", "acctmod", "acctren", "acctdel":
		s, err := mobius.NewYAMLAccountManager(filepath.Join(dir, "Users"))
		if err != nil {
			return err
		}
		fmt.Fprintln(os.Stderr, "MARK")
		switch p[0] {
		case "acctnew":
			if s.Get(p[1]) != nil {
				return fmt.Errorf("exists")
			}
			return s.Create(*hotline.NewAccount(p[1], "N-"+p[1], "pw", hotline.AccessBitmap{}))
		case "acctmod":
			a := s.Get(p[1])
			if a == nil {
				return fmt.Errorf("no such account")
			}
			a.Name = "M-" + p[1]
			return s.Update(*a, a.Login)
		case "acctren":
			a := s.Get(p[1])
			if a == nil || s.Get(p[2]) != nil {
				return fmt.Errorf("no such account / target exists")
			}
			return s.Update(*a, p[2])
		default:
			if s.Get(p[1]) == nil {
				return fmt.Errorf("no such account")
			}
			return s.Delete(p[1])
		}
	case "ban":
		s, err := mobius.NewBanFile(filepath.Join(dir, "Banlist.yaml"))
		if err != nil {
			return err
		}
		fmt.Fprintln(os.Stderr, "MARK")
		if p[2] == "perm" {
			return s.Add(p[1], nil)
		}
		t := time.Date(2030, 1, 1, 0, 0, 0, 0, time.UTC)
		return s.Add(p[1], &t)
	}
	return fmt.Errorf("unknown update %q", op)
}
