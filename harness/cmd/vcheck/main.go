// vcheck runs one property check: a supervisor that shards the exploration over worker processes
// (re-executions of itself), merges their results, classifies violations against the committed
// known-findings file, writes the evidence file and prints the verdict lines.
package main

import (
	"encoding/json"
	"flag"
	"fmt"
	"os"
	"os/exec"
	"path/filepath"
	"runtime"
	"sort"
	"strings"
	"sync"
	"time"

	"github.com/jhalter/mobius/verifh/explore"
	"github.com/jhalter/mobius/verifh/props"
)

var verdictOut = os.Stdout

func main() {
	check := flag.String("check", "", "property id")
	tier := flag.String("tier", "quick", "quick|thorough")
	seed := flag.Int64("seed", 0, "VERIF_SEED")
	workers := flag.Int("workers", runtime.NumCPU(), "worker processes")
	worker := flag.String("worker", "", "i/n (internal)")
	out := flag.String("out", "", "worker result file (internal)")
	replay := flag.String("replay", "", "replay file")
	verif := flag.String("verif", "/verif", "verification root")
	budget := flag.Duration("budget", 0, "time budget per worker (0 = tier default)")
	flag.Parse()

	p := props.Lookup(*check)
	if p == nil {
		fmt.Fprintf(os.Stderr, "vcheck: unknown check %q\n", *check)
		os.Exit(2)
	}
	if *budget == 0 {
		*budget = p.QuickBudget
		if *tier == "thorough" {
			*budget = p.ThoroughBudget
		}
		if *budget == 0 {
			*budget = 10 * time.Minute
		}
	}

	if *worker != "" {
		var i, n int
		fmt.Sscanf(*worker, "%d/%d", &i, &n)
		// repo code prints panics to stdout with fmt.Println: keep our own stdout clean
		devnull, _ := os.OpenFile(os.DevNull, os.O_WRONLY, 0)
		os.Stdout = devnull
		w := explore.NewWorker(*check, *tier, *seed, i, n, *budget)
		func() {
			defer func() {
				if r := recover(); r != nil {
					w.Broken("worker %d panicked: %v", i, r)
					fmt.Fprintf(os.Stderr, "worker panic: %v\n%s\n", r, stack())
				}
			}()
			p.Run(w)
		}()
		if err := w.WriteResult(*out); err != nil {
			fmt.Fprintln(os.Stderr, "vcheck worker:", err)
			os.Exit(2)
		}
		return
	}

	if *replay != "" {
		devnull, _ := os.OpenFile(os.DevNull, os.O_WRONLY, 0)
		os.Stdout = devnull
		raw, err := os.ReadFile(*replay)
		if err != nil {
			fmt.Fprintln(os.Stderr, "vcheck:", err)
			os.Exit(2)
		}
		var rf replayFile
		if err := json.Unmarshal(raw, &rf); err != nil {
			fmt.Fprintln(os.Stderr, "vcheck: bad replay file:", err)
			os.Exit(2)
		}
		w := explore.NewWorker(*check, "replay", *seed, 0, 1, *budget)
		if p.Replay == nil {
			fmt.Fprintln(os.Stderr, "vcheck: check has no replay function")
			os.Exit(2)
		}
		p.Replay(w, rf.Replay)
		res := w.Finish()
		if res.Error != "" {
			fmt.Fprintln(verdictOut, "ERROR:", res.Error)
			os.Exit(2)
		}
		if len(res.Violations) == 0 {
			fmt.Fprintln(verdictOut, "replay: no violation reproduced")
			return
		}
		for _, v := range res.Violations {
			fmt.Fprintf(verdictOut, "REPRODUCED property=%s signature=%s\n%s\n", *check, v.Signature, v.Detail)
		}
		fmt.Fprintf(verdictOut, "VIOLATION property=%s replay=%s\n", *check, *replay)
		os.Exit(1)
	}

	start := time.Now()
	n := *workers
	if p.MaxWorkers > 0 && n > p.MaxWorkers {
		n = p.MaxWorkers
	}
	tmp, err := os.MkdirTemp(os.Getenv("VERIF_SCRATCH"), "vres-")
	if err != nil {
		fmt.Fprintln(os.Stderr, "vcheck:", err)
		os.Exit(2)
	}
	defer os.RemoveAll(tmp)
	results := make([]explore.Result, n)
	var wg sync.WaitGroup
	for i := 0; i < n; i++ {
		wg.Add(1)
		go func(i int) {
			defer wg.Done()
			outf := filepath.Join(tmp, fmt.Sprintf("w%d.json", i))
			cmd := exec.Command(os.Args[0], "-check", *check, "-tier", *tier, "-seed", fmt.Sprint(*seed),
				"-worker", fmt.Sprintf("%d/%d", i, n), "-out", outf, "-verif", *verif, "-budget", budget.String())
			cmd.Stderr = os.Stderr
			cmd.Env = append(os.Environ(), "GOMAXPROCS=2", "VERIF_WORKER_OUT="+outf)
			err := cmd.Run()
			b, rerr := os.ReadFile(outf)
			if err != nil || rerr != nil {
				results[i].Error = fmt.Sprintf("worker %d failed: %v %v", i, err, rerr)
				return
			}
			if jerr := json.Unmarshal(b, &results[i]); jerr != nil {
				results[i].Error = fmt.Sprintf("worker %d: bad result: %v", i, jerr)
			}
		}(i)
	}
	wg.Wait()
	res := explore.Merge(results)
	wall := time.Since(start).Seconds()

	code := finish(p, res, *check, *tier, *seed, *verif, wall, n)
	os.Exit(code)
}

func stack() string {
	b := make([]byte, 1<<16)
	return string(b[:runtime.Stack(b, false)])
}

type replayFile struct {
	Property  string          `json:"property"`
	Signature string          `json:"signature"`
	Detail    string          `json:"detail"`
	Replay    json.RawMessage `json:"replay"`
}

type finding struct {
	Status    string `json:"status"` // open | fixed
	Property  string `json:"property"`
	Signature string `json:"signature"`
	What      string `json:"what"`
	Commit    string `json:"commit,omitempty"`
}

func finish(p *props.Prop, res explore.Result, check, tier string, seed int64, verif string, wall float64, workers int) int {
	// known findings
	var known []finding
	if b, err := os.ReadFile(filepath.Join(verif, "known_findings.json")); err == nil {
		if err := json.Unmarshal(b, &known); err != nil {
			fmt.Fprintln(os.Stderr, "vcheck: known_findings.json:", err)
			return 2
		}
	}
	open := map[string]finding{}
	for _, f := range known {
		if f.Property == check && f.Status == "open" {
			open[f.Signature] = f
		}
	}

	exhaustive := len(res.Caps) == 0 && res.Error == ""
	cov := map[string]interface{}{
		"evaluations":         res.Evaluations,
		"distinct_nontrivial": len(res.Outcomes),
		"rule":                p.Rule,
		"samples":             res.Samples,
		"exhaustive":          exhaustive,
		"caps":                res.Caps,
		"workers":             workers,
	}
	if p.Level == "model_checking" {
		cov["states"] = res.States
		cov["transitions"] = res.Transitions
		cov["traces_validated_against_impl"] = res.Evaluations
	}
	for k, v := range res.Extra {
		cov[k] = v
	}
	for k, v := range res.Notes {
		cov[k] = v
	}
	if len(res.Samples) == 0 {
		cov["samples"] = []interface{}{"no execution completed"}
	}

	code := 0
	var lines []string
	unlisted := 0
	var knownSeen []string
	for _, v := range res.Violations {
		if f, ok := open[v.Signature]; ok {
			lines = append(lines, fmt.Sprintf("KNOWN-FINDING: property=%s %s [%s]", check, f.What, v.Signature))
			knownSeen = append(knownSeen, v.Signature)
			continue
		}
		unlisted++
		name := fmt.Sprintf("%s-%016x.json", check, explore.Hash(v.Signature))
		path := filepath.Join(verif, "replays", name)
		_ = os.MkdirAll(filepath.Dir(path), 0755)
		b, _ := json.MarshalIndent(replayFile{Property: check, Signature: v.Signature, Detail: v.Detail, Replay: v.Replay}, "", " ")
		_ = os.WriteFile(path, b, 0644)
		lines = append(lines, fmt.Sprintf("  signature: %s\n  detail: %s", v.Signature, indent(v.Detail)))
		lines = append(lines, fmt.Sprintf("VIOLATION property=%s replay=%s", check, path))
		code = 1
	}
	sort.Strings(knownSeen)
	cov["known_findings_observed"] = knownSeen
	if res.Error != "" {
		lines = append(lines, "ERROR: check is broken: "+res.Error)
		code = 2
	}
	if p.MinOutcomes > 0 && len(res.Outcomes) < p.MinOutcomes && res.Error == "" && exhaustive {
		lines = append(lines, fmt.Sprintf("ERROR: vacuous exploration: only %d distinct observations (need >= %d)", len(res.Outcomes), p.MinOutcomes))
		code = 2
	}

	ev := map[string]interface{}{
		"property_id": check,
		"tier":        tier,
		"seed":        seed,
		"level":       p.Level,
		"coverage":    cov,
		"assumptions": p.Assumptions,
		"wall_s":      wall,
		"violations":  unlisted,
	}
	b, _ := json.MarshalIndent(ev, "", " ")
	evPath := filepath.Join(verif, "evidence", check+".json")
	_ = os.MkdirAll(filepath.Dir(evPath), 0755)
	if err := os.WriteFile(evPath, append(b, '\n'), 0644); err != nil {
		fmt.Fprintln(os.Stderr, "vcheck: write evidence:", err)
		code = 2
	}

	for _, l := range lines {
		fmt.Fprintln(verdictOut, l)
	}
	fmt.Fprintf(verdictOut, "%s %s: evaluations=%d distinct=%d states=%d transitions=%d exhaustive=%v caps=%d violations=%d known=%d wall=%.1fs\n",
		check, tier, res.Evaluations, len(res.Outcomes), res.States, res.Transitions, exhaustive, len(res.Caps), unlisted, len(knownSeen), wall)
	for _, c := range res.Caps {
		fmt.Fprintln(verdictOut, "  cap:", c)
	}
	return code
}

func indent(s string) string { return strings.ReplaceAll(s, "\n", "\n    ") }
