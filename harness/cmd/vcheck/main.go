// vcheck runs one property check: a supervisor that shards the exploration over worker processes
// (re-executions of itself), merges their results, classifies violations against the committed
// known-findings file, writes the evidence file and prints the verdict lines.
package main

import (
	"encoding/json"
	"flag"
	"fmt"
	"os"
	"os/exec"
	"path/filepath"
	"runtime"
	"sort"
	"strings"
	"sync"
	"time"

	"github.com/jhalter/mobius/verifh/explore"
	"github.com/jhalter/mobius/verifh/props"
	"github.com/jhalter/mobius/verifh/vrt"
)

var verdictOut = os.Stdout

// evidenceDir: the self-tests against seeded changes write their evidence elsewhere (VERIF_EVIDENCE_DIR)
// so that /verif/evidence only ever describes runs against /repo itself.
func evidenceDir(verif string) string {
	if d := os.Getenv("VERIF_EVIDENCE_DIR"); d != "" {
		_ = os.MkdirAll(d, 0755)
		return d
	}
	return filepath.Join(verif, "evidence")
}

func main() {
	check := flag.String("check", "", "property id")
	tier := flag.String("tier", "quick", "quick|thorough")
	seed := flag.Int64("seed", 0, "VERIF_SEED")
	workers := flag.Int("workers", runtime.NumCPU(), "worker processes")
	worker := flag.String("worker", "", "i/n (internal)")
	out := flag.String("out", "", "worker result file (internal)")
	replay := flag.String("replay", "", "replay file")
	verif := flag.String("verif", "/verif", "verification root")
	budget := flag.Duration("budget", 0, "time budget per worker (0 = tier default)")
	racePass := flag.Bool("racepass", false, "race-oracle pass of the thorough tier: quick-tier enumeration under the race detector, merged into the existing evidence file")
	flag.Parse()

	// every mutex release is a scheduling point too (reaches code that keeps using shared data after
	// it let go of the lock); VERIF_UNLOCKPOINTS=0 restores acquisition-only switching
	vrt.UnlockPoints = os.Getenv("VERIF_UNLOCKPOINTS") != "0"
	p := props.Lookup(*check)
	if p == nil {
		fmt.Fprintf(os.Stderr, "vcheck: unknown check %q\n", *check)
		os.Exit(2)
	}
	if *budget == 0 {
		*budget = p.QuickBudget
		if *tier == "thorough" {
			*budget = p.ThoroughBudget
		}
		if *budget == 0 {
			*budget = 10 * time.Minute
		}
	}

	if *worker != "" {
		var i, n int
		fmt.Sscanf(*worker, "%d/%d", &i, &n)
		// repo code prints panics to stdout with fmt.Println: keep our own stdout clean
		devnull, _ := os.OpenFile(os.DevNull, os.O_WRONLY, 0)
		os.Stdout = devnull
		w := explore.NewWorker(*check, *tier, *seed, i, n, *budget)
		func() {
			defer func() {
				if r := recover(); r != nil {
					w.Broken("worker %d panicked: %v", i, r)
					fmt.Fprintf(os.Stderr, "worker panic: %v\n%s\n", r, stack())
				}
			}()
			p.Run(w)
		}()
		if err := w.WriteResult(*out); err != nil {
			fmt.Fprintln(os.Stderr, "vcheck worker:", err)
			os.Exit(2)
		}
		return
	}

	if *replay != "" {
		devnull, _ := os.OpenFile(os.DevNull, os.O_WRONLY, 0)
		os.Stdout = devnull
		raw, err := os.ReadFile(*replay)
		if err != nil {
			fmt.Fprintln(os.Stderr, "vcheck:", err)
			os.Exit(2)
		}
		var rf replayFile
		if err := json.Unmarshal(raw, &rf); err != nil {
			fmt.Fprintln(os.Stderr, "vcheck: bad replay file:", err)
			os.Exit(2)
		}
		w := explore.NewWorker(*check, "replay", *seed, 0, 1, *budget)
		if p.Replay == nil {
			fmt.Fprintln(os.Stderr, "vcheck: check has no replay function")
			os.Exit(2)
		}
		p.Replay(w, rf.Replay)
		res := w.Finish()
		if res.Error != "" {
			fmt.Fprintln(verdictOut, "ERROR:", res.Error)
			os.Exit(2)
		}
		if len(res.Violations) == 0 {
			fmt.Fprintln(verdictOut, "replay: no violation reproduced")
			return
		}
		for _, v := range res.Violations {
			fmt.Fprintf(verdictOut, "REPRODUCED property=%s signature=%s\n%s\n", *check, v.Signature, v.Detail)
		}
		fmt.Fprintf(verdictOut, "VIOLATION property=%s replay=%s\n", *check, *replay)
		os.Exit(1)
	}

	workerTier := *tier
	if *racePass {
		workerTier = "quick"
		if *budget > 8*time.Minute || *budget == 0 {
			*budget = 8 * time.Minute
		}
	}
	start := time.Now()
	n := *workers
	if p.MaxWorkers > 0 && n > p.MaxWorkers {
		n = p.MaxWorkers
	}
	tmp, err := os.MkdirTemp(os.Getenv("VERIF_SCRATCH"), "vres-")
	if err != nil {
		fmt.Fprintln(os.Stderr, "vcheck:", err)
		os.Exit(2)
	}
	defer os.RemoveAll(tmp)
	results := make([]explore.Result, n)
	var wg sync.WaitGroup
	for i := 0; i < n; i++ {
		wg.Add(1)
		go func(i int) {
			defer wg.Done()
			outf := filepath.Join(tmp, fmt.Sprintf("w%d.json", i))
			cmd := exec.Command(os.Args[0], "-check", *check, "-tier", workerTier, "-seed", fmt.Sprint(*seed),
				"-worker", fmt.Sprintf("%d/%d", i, n), "-out", outf, "-verif", *verif, "-budget", budget.String())
			cmd.Stderr = os.Stderr
			cmd.Env = append(os.Environ(), "GOMAXPROCS=2", "VERIF_WORKER_OUT="+outf)
			if vrt.RaceEnabled {
				cmd.Env = append(cmd.Env, fmt.Sprintf("GORACE=log_path=%s exitcode=0 halt_on_error=0", filepath.Join(tmp, fmt.Sprintf("race-w%d", i))))
			}
			err := cmd.Run()
			b, rerr := os.ReadFile(outf)
			if err != nil || rerr != nil {
				results[i].Error = fmt.Sprintf("worker %d failed: %v %v", i, err, rerr)
				return
			}
			if jerr := json.Unmarshal(b, &results[i]); jerr != nil {
				results[i].Error = fmt.Sprintf("worker %d: bad result: %v", i, jerr)
			}
		}(i)
	}
	wg.Wait()
	if vrt.RaceEnabled {
		// the race detector as a happens-before oracle over every enumerated schedule
		logs, _ := filepath.Glob(filepath.Join(tmp, "race-w*"))
		var all strings.Builder
		for _, l := range logs {
			b, _ := os.ReadFile(l)
			all.Write(b)
		}
		reps := explore.ParseRaceLog(all.String())
		var extra explore.Result
		extra.Extra = map[string]int64{"race_reports_in_repository_code": int64(len(reps)), "race_reports_total": int64(strings.Count(all.String(), "WARNING: DATA RACE"))}
		extra.Notes = map[string]string{}
		var others []string
		for _, r := range reps {
			if !r.MapAccess {
				// a plain data race: reported in the evidence, not a violation of a listed property
				others = append(others, r.Sites[0]+"|"+r.Sites[1])
				continue
			}
			b, _ := json.Marshal(map[string]string{"kind": "race", "note": "re-run this check with VERIF_RACE=1"})
			extra.Violations = append(extra.Violations, explore.Violation{Signature: *check + "/data-race/" + r.Sites[0] + "|" + r.Sites[1],
				Detail: "concurrent map access in repository code in one of the enumerated schedules (race detector with the scheduler's hand-offs hidden); the Go runtime aborts a real process on this:\n" + r.Text, Replay: b})
		}
		sort.Strings(others)
		extra.Notes["other_data_races_in_repository_code"] = strings.Join(others, " ; ")
		results = append(results, extra)
	}
	res := explore.Merge(results)
	wall := time.Since(start).Seconds()

	if *racePass {
		os.Exit(finishRacePass(res, *check, *verif, wall))
	}
	code := finish(p, res, *check, *tier, *seed, *verif, wall, n)
	os.Exit(code)
}

func stack() string {
	b := make([]byte, 1<<16)
	return string(b[:runtime.Stack(b, false)])
}

type replayFile struct {
	Property  string          `json:"property"`
	Signature string          `json:"signature"`
	Detail    string          `json:"detail"`
	Replay    json.RawMessage `json:"replay"`
}

type finding struct {
	Status    string `json:"status"` // open | fixed
	Property  string `json:"property"`
	Signature string `json:"signature"`
	What      string `json:"what"`
	Commit    string `json:"commit,omitempty"`
}

func finish(p *props.Prop, res explore.Result, check, tier string, seed int64, verif string, wall float64, workers int) int {
	// known findings
	var known []finding
	if b, err := os.ReadFile(filepath.Join(verif, "known_findings.json")); err == nil {
		if err := json.Unmarshal(b, &known); err != nil {
			fmt.Fprintln(os.Stderr, "vcheck: known_findings.json:", err)
			return 2
		}
	}
	open := map[string]finding{}
	for _, f := range known {
		if f.Property == check && f.Status == "open" {
			open[f.Signature] = f
		}
	}

	exhaustive := len(res.Caps) == 0 && res.Error == ""
	cov := map[string]interface{}{
		"evaluations":         res.Evaluations,
		"distinct_nontrivial": len(res.Outcomes),
		"rule":                p.Rule,
		"samples":             res.Samples,
		"exhaustive":          exhaustive,
		"caps":                res.Caps,
		"workers":             workers,
	}
	if p.Level == "model_checking" {
		cov["states"] = res.States
		cov["transitions"] = res.Transitions
		cov["traces_validated_against_impl"] = res.Evaluations
	}
	for k, v := range res.Extra {
		cov[k] = v
	}
	for k, v := range res.Notes {
		cov[k] = v
	}
	if len(res.Samples) == 0 {
		cov["samples"] = []interface{}{"no execution completed"}
	}

	code := 0
	var lines []string
	unlisted := 0
	var knownSeen []string
	for _, v := range res.Violations {
		if f, ok := open[v.Signature]; ok {
			lines = append(lines, fmt.Sprintf("KNOWN-FINDING: property=%s %s [%s]", check, f.What, v.Signature))
			knownSeen = append(knownSeen, v.Signature)
			continue
		}
		unlisted++
		name := fmt.Sprintf("%s-%016x.json", check, explore.Hash(v.Signature))
		path := filepath.Join(verif, "replays", name)
		_ = os.MkdirAll(filepath.Dir(path), 0755)
		b, _ := json.MarshalIndent(replayFile{Property: check, Signature: v.Signature, Detail: v.Detail, Replay: v.Replay}, "", " ")
		_ = os.WriteFile(path, b, 0644)
		lines = append(lines, fmt.Sprintf("  signature: %s\n  detail: %s", v.Signature, indent(v.Detail)))
		lines = append(lines, fmt.Sprintf("VIOLATION property=%s replay=%s", check, path))
		code = 1
	}
	sort.Strings(knownSeen)
	cov["known_findings_observed"] = knownSeen
	if res.Error != "" {
		lines = append(lines, "ERROR: check is broken: "+res.Error)
		code = 2
	}
	if p.MinOutcomes > 0 && len(res.Outcomes) < p.MinOutcomes && res.Error == "" && exhaustive {
		lines = append(lines, fmt.Sprintf("ERROR: vacuous exploration: only %d distinct observations (need >= %d)", len(res.Outcomes), p.MinOutcomes))
		code = 2
	}

	ev := map[string]interface{}{
		"property_id": check,
		"tier":        tier,
		"seed":        seed,
		"level":       p.Level,
		"coverage":    cov,
		"assumptions": p.Assumptions,
		"wall_s":      wall,
		"violations":  unlisted,
	}
	b, _ := json.MarshalIndent(ev, "", " ")
	evPath := filepath.Join(evidenceDir(verif), check+".json")
	_ = os.MkdirAll(filepath.Dir(evPath), 0755)
	if err := os.WriteFile(evPath, append(b, '\n'), 0644); err != nil {
		fmt.Fprintln(os.Stderr, "vcheck: write evidence:", err)
		code = 2
	}

	for _, l := range lines {
		fmt.Fprintln(verdictOut, l)
	}
	fmt.Fprintf(verdictOut, "%s %s: evaluations=%d distinct=%d states=%d transitions=%d exhaustive=%v caps=%d violations=%d known=%d wall=%.1fs\n",
		check, tier, res.Evaluations, len(res.Outcomes), res.States, res.Transitions, exhaustive, len(res.Caps), unlisted, len(knownSeen), wall)
	for _, c := range res.Caps {
		fmt.Fprintln(verdictOut, "  cap:", c)
	}
	return code
}

// finishRacePass merges the result of the race-oracle pass into the evidence file the functional
// pass has just written and reports race violations only (functional ones were reported already).
func finishRacePass(res explore.Result, check, verif string, wall float64) int {
	evPath := filepath.Join(evidenceDir(verif), check+".json")
	var ev map[string]interface{}
	if b, err := os.ReadFile(evPath); err == nil {
		_ = json.Unmarshal(b, &ev)
	}
	code := 0
	var sigs []string
	for _, v := range res.Violations {
		if !strings.Contains(v.Signature, "/data-race/") {
			continue
		}
		sigs = append(sigs, v.Signature)
		name := fmt.Sprintf("%s-%016x.json", check, explore.Hash(v.Signature))
		path := filepath.Join(verif, "replays", name)
		b, _ := json.MarshalIndent(replayFile{Property: check, Signature: v.Signature, Detail: v.Detail, Replay: v.Replay}, "", " ")
		_ = os.WriteFile(path, b, 0644)
		fmt.Fprintf(verdictOut, "  signature: %s\n  detail: %s\nVIOLATION property=%s replay=%s\n", v.Signature, indent(clipStr(v.Detail, 3000)), check, path)
		code = 1
	}
	if res.Error != "" {
		fmt.Fprintln(verdictOut, "ERROR: race pass is broken: "+res.Error)
		code = 2
	}
	if ev != nil {
		if cov, ok := ev["coverage"].(map[string]interface{}); ok {
			cov["race_pass"] = map[string]interface{}{
				"what":                                 "the quick-tier enumeration re-executed under the Go race detector with the scheduler's hand-offs hidden from it (happens-before oracle per schedule)",
				"executions":                           res.Evaluations,
				"race_reports_total_incl_harness":      res.Extra["race_reports_total"],
				"race_reports_in_repository_code":      res.Extra["race_reports_in_repository_code"],
				"concurrent_map_access_violations":     sigs,
				"other_data_races_in_repository_code":  res.Notes["other_data_races_in_repository_code"],
				"caps":                                 res.Caps,
				"wall_s":                               wall,
			}
			if v, ok := ev["violations"].(float64); ok {
				ev["violations"] = int(v) + len(sigs)
			}
			b, _ := json.MarshalIndent(ev, "", " ")
			_ = os.WriteFile(evPath, append(b, '\n'), 0644)
		}
	}
	fmt.Fprintf(verdictOut, "%s race pass: executions=%d reports-in-repo-code=%d map-access-violations=%d wall=%.1fs\n", check, res.Evaluations, res.Extra["race_reports_in_repository_code"], len(sigs), wall)
	return code
}

func clipStr(s string, n int) string {
	if len(s) > n {
		return s[:n] + "…"
	}
	return s
}

func indent(s string) string { return strings.ReplaceAll(s, "\n", "\n    ") }
