// Package world builds what cmd/mobius-hotline-server/main.go builds — a real hotline.Server with
// the real stores of internal/mobius over a scratch config directory — and drives it through
// in-memory connections with clients that speak bytes produced by the reference codec only.
package world

import (
	"context"
	"crypto/sha256"
	"fmt"
	"io"
	"log/slog"
	"os"
	"path/filepath"
	"sort"
	"strings"
	"sync/atomic"
	"time"

	"golang.org/x/crypto/bcrypt"

	"github.com/jhalter/mobius/hotline"
	"github.com/jhalter/mobius/internal/mobius"
	"github.com/jhalter/mobius/verifh/ref"
	"github.com/jhalter/mobius/verifh/vrt"
	"github.com/jhalter/mobius/verifh/vrt/vnet"
)

// Acct describes an account the harness puts on disk before the server starts.
type Acct struct {
	Login    string
	Name     string
	Password string // plain text
	Access   [8]byte
	FileRoot string
	RawHash  *string // if set: written verbatim as the stored password (malformed hashes)
}

var AllAccess = [8]byte{255, 255, 255, 255, 255, 255, 255, 255}

// Bits builds a bitmap with the given privilege numbers set (bit i counted from the MSB of byte 0).
func Bits(is ...int) [8]byte {
	var b [8]byte
	for _, i := range is {
		b[i/8] |= 0x80 >> uint(i%8)
	}
	return b
}

func Without(b [8]byte, is ...int) [8]byte {
	for _, i := range is {
		b[i/8] &^= 0x80 >> uint(i%8)
	}
	return b
}

func Has(b [8]byte, i int) bool { return b[i/8]&(0x80>>uint(i%8)) != 0 }

type Cfg struct {
	Accounts      []Acct
	Agreement     string
	Board         string
	NewsYAML      string
	BanYAML       string // "" = no ban file
	IgnoreFiles   []string
	PreserveForks bool
	Files         func(root string) // populate the file root
	NoOutbox      bool              // do not start processOutbox
	Name          string
	NewsDelimiter string // the documented configuration option of the same name
}

type World struct {
	Cfg       Cfg
	Dir       string // sandbox: contains config/ (with Files/ inside) and canary siblings
	ConfigDir string
	FileRoot  string
	UsersDir  string
	Srv       *hotline.Server
	Clients   []*Client
	nconn     int
}

var hashCache = map[string]string{}

// HashPw returns a bcrypt hash (minimum cost, as the repository itself uses) of the obfuscated form
// of a plain password: the server stores and compares the bytes as they arrive on the wire.
func HashPw(plain string) string {
	if h, ok := hashCache[plain]; ok {
		return h
	}
	b, err := bcrypt.GenerateFromPassword(ref.Obfuscate([]byte(plain)), bcrypt.MinCost)
	if err != nil {
		panic(err)
	}
	hashCache[plain] = string(b)
	return string(b)
}

var dirSeq atomic.Int64

func scratchBase() string {
	if d := os.Getenv("VERIF_SCRATCH"); d != "" {
		return d
	}
	return os.TempDir()
}

var discardLogger = slog.New(slog.NewTextHandler(io.Discard, &slog.HandlerOptions{Level: slog.LevelError + 4}))

func must(err error) {
	if err != nil {
		panic(err)
	}
}

// AccountYAML renders an account file in the legacy numeric-array form (the only on-disk form that
// can carry all 64 bits).
func AccountYAML(a Acct) string {
	ints := make([]string, 8)
	for i, b := range a.Access {
		ints[i] = fmt.Sprint(int(b))
	}
	hash := HashPw(a.Password)
	if a.RawHash != nil {
		hash = *a.RawHash
	}
	return fmt.Sprintf("Login: %q\nName: %q\nPassword: %q\nAccess: [%s]\nFileRoot: %q\n",
		a.Login, a.Name, hash, strings.Join(ints, ", "), a.FileRoot)
}

const EmptyNews = "Categories: {}\n"

// New builds a fresh world. It must be called from a managed thread (or outside any execution).
func New(cfg Cfg) *World {
	w := &World{Cfg: cfg}
	base := scratchBase()
	w.Dir = filepath.Join(base, fmt.Sprintf("w%d-%d", os.Getpid(), dirSeq.Add(1)))
	_ = os.RemoveAll(w.Dir)
	w.ConfigDir = filepath.Join(w.Dir, "config")
	w.FileRoot = filepath.Join(w.ConfigDir, "Files")
	w.UsersDir = filepath.Join(w.ConfigDir, "Users")
	must(os.MkdirAll(w.FileRoot, 0755))
	must(os.MkdirAll(w.UsersDir, 0755))
	must(os.WriteFile(filepath.Join(w.ConfigDir, "Agreement.txt"), []byte(cfg.Agreement), 0644))
	must(os.WriteFile(filepath.Join(w.ConfigDir, "MessageBoard.txt"), []byte(cfg.Board), 0644))
	news := cfg.NewsYAML
	if news == "" {
		news = EmptyNews
	}
	must(os.WriteFile(filepath.Join(w.ConfigDir, "ThreadedNews.yaml"), []byte(news), 0644))
	if cfg.BanYAML != "" {
		must(os.WriteFile(filepath.Join(w.ConfigDir, "Banlist.yaml"), []byte(cfg.BanYAML), 0644))
	}
	for i := range cfg.Accounts {
		// "$CONFIG" in a per-account file root stands for this world's config directory
		cfg.Accounts[i].FileRoot = strings.ReplaceAll(cfg.Accounts[i].FileRoot, "$CONFIG", w.ConfigDir)
	}
	for _, a := range cfg.Accounts {
		must(os.WriteFile(filepath.Join(w.UsersDir, a.Login+".yaml"), []byte(AccountYAML(a)), 0644))
	}
	if cfg.Files != nil {
		cfg.Files(w.FileRoot)
	}
	FreezeTimes(w.Dir)
	w.Start()
	return w
}

// FixedMTime is the modification time given to every fixture entry (file dates appear in info forks
// and replies; the real clock must not leak into observations).
var FixedMTime = time.Date(2024, time.January, 2, 3, 4, 5, 0, time.Local)

// FreezeTimes sets the modification time of every entry under root to FixedMTime.
func FreezeTimes(root string) {
	var paths []string
	_ = filepath.Walk(root, func(p string, info os.FileInfo, err error) error {
		if err == nil && info.Mode()&os.ModeSymlink == 0 {
			paths = append(paths, p)
		}
		return nil
	})
	for i := len(paths) - 1; i >= 0; i-- {
		_ = os.Chtimes(paths[i], FixedMTime, FixedMTime)
	}
}

// Start constructs the server and stores over the existing directory (also used for "restart").
func (w *World) Start() {
	name := w.Cfg.Name
	if name == "" {
		name = "verif"
	}
	srv, err := hotline.NewServer(
		hotline.WithLogger(discardLogger),
		hotline.WithConfig(hotline.Config{
			Name: name, Description: "d", FileRoot: w.FileRoot,
			IgnoreFiles: w.Cfg.IgnoreFiles, PreserveResourceForks: w.Cfg.PreserveForks, NewsDelimiter: w.Cfg.NewsDelimiter,
		}),
	)
	must(err)
	srv.MessageBoard, err = mobius.NewFlatNews(filepath.Join(w.ConfigDir, "MessageBoard.txt"))
	must(err)
	srv.BanList, err = mobius.NewBanFile(filepath.Join(w.ConfigDir, "Banlist.yaml"))
	must(err)
	srv.ThreadedNewsMgr, err = mobius.NewThreadedNewsYAML(filepath.Join(w.ConfigDir, "ThreadedNews.yaml"))
	must(err)
	srv.AccountManager, err = mobius.NewYAMLAccountManager(w.UsersDir)
	must(err)
	srv.Agreement, err = mobius.NewAgreement(w.ConfigDir, "\r")
	must(err)
	mobius.RegisterHandlers(srv)
	w.Srv = srv
	w.Clients = nil
	if !w.Cfg.NoOutbox {
		vrt.GoNamed("outbox", srv.VerifProcessOutbox)
	}
}

// Close removes the scratch directory.
func (w *World) Close() { _ = os.RemoveAll(w.Dir) }

// ---- clients ----

type Client struct {
	W        *World
	Name     string
	Conn     *vnet.Conn
	Addr     string
	nextID   uint32
	pending  []byte
	Greeting []byte   // the 8 handshake reply bytes (or fewer)
	Inbox    []ref.Tx // every transaction received, in arrival order
	seen     int      // Inbox entries already returned by New()
	ParseErr error
	needHS   bool
}

// Dial opens a control connection from addr ("ip:port") and starts the server's connection thread.
func (w *World) Dial(addr string) *Client {
	w.nconn++
	name := fmt.Sprintf("c%d", w.nconn)
	c := &Client{W: w, Name: name, Conn: vnet.NewConn(name, addr), Addr: addr, nextID: uint32(w.nconn) << 16, needHS: true}
	w.Clients = append(w.Clients, c)
	srv := w.Srv
	vrt.GoNamed("conn:"+name, func() {
		_ = srv.VerifHandleNewConnection(context.Background(), c.Conn, addr)
		_ = c.Conn.Close()
	})
	return c
}

// DialTransfer opens a transfer connection and starts the server's transfer thread.
func (w *World) DialTransfer(addr string) *vnet.Conn {
	w.nconn++
	name := fmt.Sprintf("x%d", w.nconn)
	conn := vnet.NewConn(name, addr)
	srv := w.Srv
	vrt.GoNamed("xfer:"+name, func() {
		_ = srv.VerifHandleFileTransfer(hotline.VerifRequestCtx(context.Background(), addr), conn)
		_ = conn.Close()
	})
	return conn
}

func (c *Client) Handshake() { c.Conn.Feed(ref.Handshake()) }

// Send transmits t (assigning a fresh id when t.ID is 0) and returns the id used.
func (c *Client) Send(t ref.Tx) uint32 {
	if t.ID == 0 {
		c.nextID++
		t.ID = c.nextID
	}
	c.Conn.Feed(t.Encode())
	return t.ID
}

func (c *Client) Req(typ uint16, fields ...ref.Fld) uint32 {
	return c.Send(ref.Tx{Type: typ, Fields: fields})
}

// LoginTx builds a login transaction.
func LoginTx(login, password string, extra ...ref.Fld) ref.Tx {
	f := []ref.Fld{ref.F(ref.FUserLogin, ref.Obfuscate([]byte(login))), ref.F(ref.FUserPassword, ref.Obfuscate([]byte(password)))}
	return ref.Tx{Type: ref.TLogin, Fields: append(f, extra...)}
}

// Login123 logs in the way a 1.2.3 client does: user name and icon in the login transaction.
func (c *Client) Login123(login, password, name string, icon uint16) uint32 {
	return c.Send(LoginTx(login, password, ref.FS(ref.FUserName, name), ref.F16(ref.FUserIconID, icon)))
}

// Login15 logs in the way a 1.5+ client does: version field, no name (it follows in Agreed).
func (c *Client) Login15(login, password string) uint32 {
	return c.Send(LoginTx(login, password, ref.F16(ref.FVersion, 190)))
}

// Poll parses whatever the server has written since the last call.
func (c *Client) Poll() {
	c.pending = append(c.pending, c.Conn.Take()...)
	if c.needHS {
		if len(c.pending) < 8 {
			return
		}
		c.Greeting = append([]byte(nil), c.pending[:8]...)
		c.pending = c.pending[8:]
		c.needHS = false
	}
	if c.ParseErr != nil {
		return
	}
	txs, rest, err := ref.DecodeStream(c.pending)
	c.Inbox = append(c.Inbox, txs...)
	c.pending = rest
	c.ParseErr = err
}

// New returns the transactions that arrived since the previous call to New.
func (c *Client) New() []ref.Tx {
	c.Poll()
	n := c.Inbox[c.seen:]
	c.seen = len(c.Inbox)
	return n
}

// Reply finds the reply to request id.
func (c *Client) Reply(id uint32) *ref.Tx {
	c.Poll()
	for i := range c.Inbox {
		if c.Inbox[i].IsReply == 1 && c.Inbox[i].ID == id {
			return &c.Inbox[i]
		}
	}
	return nil
}

// Unparsed returns bytes received that do not (yet) form a complete transaction.
func (c *Client) Unparsed() []byte { c.Poll(); return c.pending }

// Hangup closes the client's side.
func (c *Client) Hangup() { c.Conn.CloseWrite() }

// Quiet runs the server to quiescence at the current virtual time.
func Quiet() { vrt.WaitQuiet() }

// Settle runs to quiescence, letting up to d of virtual time pass.
func Settle(d time.Duration) { vrt.Settle(d) }

// Connect = dial + handshake + 1.2.3-style login + quiescence; returns the client and its login reply.
func (w *World) Connect(addr, login, password, name string) (*Client, *ref.Tx) {
	c := w.Dial(addr)
	c.Handshake()
	id := c.Login123(login, password, name, 1)
	Quiet()
	return c, c.Reply(id)
}

// UserID extracts the id the server gave this client by asking for the user list is not needed: the
// access transaction (354) is addressed to it, but ids are not on the wire there; so we use the
// registry view through the protocol: the user list entry whose name matches.
func (w *World) UserList(c *Client) []ref.UserInfo {
	id := c.Req(ref.TGetUserNameList)
	Quiet()
	r := c.Reply(id)
	if r == nil {
		return nil
	}
	var out []ref.UserInfo
	for _, b := range r.GetAll(ref.FUserNameWithInfo) {
		u, err := ref.DecodeUserInfo(b)
		if err != nil {
			out = append(out, ref.UserInfo{Name: "!undecodable:" + err.Error()})
			continue
		}
		out = append(out, u)
	}
	return out
}

// ---- snapshots ----

// SnapshotDir lists every entry under root (relative names, type, size, content hash, link target).
func SnapshotDir(root string) []string {
	var out []string
	_ = filepath.Walk(root, func(p string, info os.FileInfo, err error) error {
		if err != nil {
			out = append(out, fmt.Sprintf("%s ERR %v", rel(root, p), err))
			return nil
		}
		r := rel(root, p)
		switch {
		case info.Mode()&os.ModeSymlink != 0:
			t, _ := os.Readlink(p)
			out = append(out, fmt.Sprintf("%s L -> %s", r, t))
		case info.IsDir():
			out = append(out, fmt.Sprintf("%s D", r))
		default:
			b, _ := os.ReadFile(p)
			out = append(out, fmt.Sprintf("%s F %d %x", r, len(b), sha256.Sum256(b)))
		}
		return nil
	})
	sort.Strings(out)
	return out
}

func rel(root, p string) string {
	r, err := filepath.Rel(root, p)
	if err != nil {
		return p
	}
	return r
}

// Tree returns a map relative path -> content ("<dir>" for directories, "-> target" for links).
func Tree(root string) map[string]string {
	m := map[string]string{}
	_ = filepath.Walk(root, func(p string, info os.FileInfo, err error) error {
		if err != nil || p == root {
			return nil
		}
		r := rel(root, p)
		switch {
		case info.Mode()&os.ModeSymlink != 0:
			t, _ := os.Readlink(p)
			m[r] = "-> " + t
		case info.IsDir():
			m[r] = "<dir>"
		default:
			b, _ := os.ReadFile(p)
			m[r] = string(b)
		}
		return nil
	})
	return m
}
