package explore

import (
	"fmt"
	"strings"
)

// SeqResult is what executing one history on a fresh world reports.
type SeqResult struct {
	Canon      string   // canonical, property-relevant snapshot of the state reached
	Skip       bool     // the last operation is not enabled in the state reached by the prefix
	Violations []SchedV // oracle failures observed at the last step
}

// SeqConfig bounds an E-SEQ exploration: breadth-first search over operation histories; a successor
// is produced by replaying the history on a fresh world plus one operation.
type SeqConfig struct {
	Name     string
	Params   string
	Alphabet []string
	Depth    int
	Exec     func(hist []string) SeqResult
	MaxExec  int64
}

// SeqReplay is the replay artefact of a history violation.
type SeqReplay struct {
	Kind    string   `json:"kind"` // "history"
	Harness string   `json:"harness"`
	Params  string   `json:"params"`
	History []string `json:"history"`
}

// ExploreHistories runs the search. Work is sharded over workers by the first operations of the
// history; each worker deduplicates states it reaches (a state reached by two workers is expanded
// twice — a cost, not a gap).
func ExploreHistories(w *Worker, cfg SeqConfig) {
	seen := map[uint64]bool{}
	var execs int64
	type node struct{ hist []string }
	shardDepth := 1
	if w.N > 1 && cfg.Depth >= 2 {
		// shard late: the levels above the sharding depth are cheap and repeated by every worker, the
		// (state, operation) pairs of the sharding level are dealt round-robin, which balances the bulk of the work
		shardDepth = cfg.Depth - 1
		if shardDepth > 4 {
			shardDepth = 4
		}
	}
	quiet := false // executions every worker repeats below the sharding depth are counted by worker 0 only
	run := func(hist []string) (SeqResult, bool) {
		if (cfg.MaxExec > 0 && execs >= cfg.MaxExec) || w.Expired() {
			w.Cap(fmt.Sprintf("%s/%s: execution/time budget reached after %d executions in this worker", cfg.Name, cfg.Params, execs))
			return SeqResult{}, false
		}
		execs++
		r := cfg.Exec(hist)
		if r.Skip {
			return r, true
		}
		if !quiet {
			w.Eval()
			w.AddTransitions(1)
		}
		for _, v := range r.Violations {
			w.Violation(v.Signature, v.Detail+"\nhistory: "+strings.Join(hist, " ; "), len(hist),
				SeqReplay{Kind: "history", Harness: cfg.Name, Params: cfg.Params, History: hist})
		}
		return r, true
	}
	// root
	root, ok := run(nil)
	if !ok {
		return
	}
	seen[Hash(root.Canon)] = true
	if w.Index == 0 {
		w.AddStates(1)
		w.Outcome(cfg.Name + "|" + cfg.Params + "|" + root.Canon)
	}
	frontier := []node{{nil}}
	maxDepth := 0
	for depth := 1; depth <= cfg.Depth && len(frontier) > 0; depth++ {
		var next []node
		for _, n := range frontier {
			for _, op := range cfg.Alphabet {
				if depth == shardDepth && !w.Next() {
					continue
				}
				quiet = depth < shardDepth && w.Index != 0
				h := append(append([]string(nil), n.hist...), op)
				r, ok := run(h)
				if !ok {
					return
				}
				if r.Skip {
					continue
				}
				k := Hash(r.Canon)
				if seen[k] {
					continue
				}
				seen[k] = true
				if !quiet {
					w.AddStates(1)
				}
				w.Outcome(cfg.Name + "|" + cfg.Params + "|" + r.Canon)
				if execs%401 == 1 {
					w.Sample(map[string]interface{}{"harness": cfg.Name, "params": cfg.Params, "history": h, "state": clip(r.Canon, 500)})
				}
				next = append(next, node{h})
				if depth > maxDepth {
					maxDepth = depth
				}
			}
		}
		frontier = next
	}
	w.Count("executions:"+cfg.Name, int(execs))
	w.Max("history_depth_completed:"+cfg.Name, cfg.Depth)
	w.Max("deepest_new_state:"+cfg.Name, maxDepth)
}
