package explore

import (
	"fmt"
	"strings"

	"github.com/jhalter/mobius/verifh/vrt"
)

// SchedOutcome is what one complete execution of a schedule harness reports.
type SchedOutcome struct {
	Canon      string   // canonical observation (distinct ones are counted)
	Violations []SchedV // oracle failures of this execution
}

type SchedV struct {
	Signature string
	Detail    string
}

// SchedReplay is the replay artefact of a schedule violation.
type SchedReplay struct {
	Kind     string   `json:"kind"` // "schedule"
	Harness  string   `json:"harness"`
	Params   string   `json:"params"`
	Choices  []int    `json:"choices"`
	Decision []string `json:"decisions,omitempty"` // human readable: enabled sets at the deviating points
}

// SchedConfig bounds an E-SCHED exploration.
type SchedConfig struct {
	Harness  string
	Params   string
	Bound    int  // maximum number of deviations from the default schedule
	FreeCost int  // cost of switching when the running thread is not enabled (0 = classic preemption bounding, 1 = every deviation counts)
	MaxSteps int  // step horizon per execution
	MaxExec  int64 // cap on executions per worker (0 = none)
	Suspend  bool  // also explore "hold the default thread back until nothing else can run" (cost 1)
}

type schedExec struct {
	s   *vrt.Sched
	out SchedOutcome
}

// RunSchedule executes body once under the given choice prefix (default choice afterwards).
func RunSchedule(prefix []int, maxSteps int, body func() SchedOutcome) (*vrt.Sched, SchedOutcome, error) {
	ch := &vrt.ReplayChooser{Prefix: prefix}
	var out SchedOutcome
	s := vrt.Run(ch, maxSteps, func() { out = body() })
	if ch.Err != nil {
		return s, out, ch.Err
	}
	if len(s.Decisions) < len(prefix) {
		return s, out, fmt.Errorf("replay divergence: execution had %d decisions, prefix has %d", len(s.Decisions), len(prefix))
	}
	return s, out, nil
}

// ExploreSchedules enumerates every schedule of body that departs from the default schedule at
// most cfg.Bound times (cost model per cfg.FreeCost), sharded over workers by first-level subtree.
// It returns the number of executions it ran itself.
func ExploreSchedules(w *Worker, cfg SchedConfig, body func() SchedOutcome) int64 {
	var execs int64
	var maxDec, maxSteps int
	capped := false

	record := func(s *vrt.Sched, out SchedOutcome, choices []int, cost int) {
		execs++
		w.Eval()
		w.AddStates(len(s.Decisions) + 1)
		w.AddTransitions(s.Steps)
		if len(s.Decisions) > maxDec {
			maxDec = len(s.Decisions)
		}
		if s.Steps > maxSteps {
			maxSteps = s.Steps
		}
		w.Outcome(cfg.Harness + "|" + cfg.Params + "|" + out.Canon)
		if s.Status == vrt.StatusHorizon {
			w.Cap(fmt.Sprintf("%s: step horizon %d hit", cfg.Harness, cfg.MaxSteps))
		}
		for _, v := range out.Violations {
			var dec []string
			for i, d := range s.Decisions {
				if d.Chosen == vrt.Suspend {
					dec = append(dec, fmt.Sprintf("#%d held back %s until nothing else can run", i, d.What[0]))
				} else if d.Chosen != 0 {
					dec = append(dec, fmt.Sprintf("#%d chose %s over %s", i, d.What[d.Chosen], d.What[0]))
				}
			}
			w.Violation(v.Signature, v.Detail+"\nschedule: "+strings.Join(dec, "; "), cost,
				SchedReplay{Kind: "schedule", Harness: cfg.Harness, Params: cfg.Params, Choices: trimZeros(s.Choices()), Decision: dec})
		}
		if execs <= 2 {
			w.Sample(map[string]interface{}{"harness": cfg.Harness, "params": cfg.Params, "choices": trimZeros(s.Choices()),
				"decisions": len(s.Decisions), "steps": s.Steps, "observation": clip(out.Canon, 600)})
		}
	}

	costOf := func(d vrt.Decision) int {
		if d.Chosen == 0 {
			return 0
		}
		if d.CurEnabled || d.Chosen == vrt.Suspend {
			return 1
		}
		return cfg.FreeCost
	}
	altCost := func(d vrt.Decision) int {
		if d.CurEnabled {
			return 1
		}
		return cfg.FreeCost
	}

	var explore func(prefix []int, top bool)
	explore = func(prefix []int, top bool) {
		if capped {
			return
		}
		if (cfg.MaxExec > 0 && execs >= cfg.MaxExec) || w.Expired() {
			capped = true
			w.Cap(fmt.Sprintf("%s/%s: execution/time budget reached after %d executions in this worker", cfg.Harness, cfg.Params, execs))
			return
		}
		s, out, err := RunSchedule(prefix, cfg.MaxSteps, body)
		if err != nil {
			w.Broken("%s/%s: %v (prefix %v)", cfg.Harness, cfg.Params, err, prefix)
			capped = true
			return
		}
		cost := 0
		for _, d := range s.Decisions {
			cost += costOf(d)
		}
		if !top || w.Index == 0 {
			record(s, out, s.Choices(), cost)
		}
		before := 0
		for i := 0; i < len(s.Decisions); i++ {
			d := s.Decisions[i]
			if i >= len(prefix) {
				c := before + altCost(d)
				if c <= cfg.Bound {
					for alt := 1; alt < len(d.Enabled); alt++ {
						if top && !w.Next() {
							continue
						}
						np := make([]int, i+1)
						copy(np, s.Choices()[:i])
						np[i] = alt
						explore(np, false)
					}
				}
				if cfg.Suspend && before+1 <= cfg.Bound {
					if !(top && !w.Next()) {
						np := make([]int, i+1)
						copy(np, s.Choices()[:i])
						np[i] = vrt.Suspend
						explore(np, false)
					}
				}
			}
			before += costOf(d)
		}
	}
	explore(nil, true)
	w.Count("executions:"+cfg.Harness, int(execs))
	w.Max("decisions_per_execution", maxDec)
	w.Max("steps_per_execution", maxSteps)
	return execs
}

func trimZeros(c []int) []int {
	n := len(c)
	for n > 0 && c[n-1] == 0 {
		n--
	}
	return append([]int(nil), c[:n]...)
}

func clip(s string, n int) string {
	if len(s) <= n {
		return s
	}
	return s[:n] + "…"
}

// DeterminismGuard runs body twice under the same prefix and fails the check if the observations differ.
func DeterminismGuard(w *Worker, name string, prefix []int, maxSteps int, body func() SchedOutcome) {
	s1, o1, e1 := RunSchedule(prefix, maxSteps, body)
	s2, o2, e2 := RunSchedule(prefix, maxSteps, body)
	if e1 != nil || e2 != nil {
		w.Broken("%s: determinism guard: %v %v", name, e1, e2)
		return
	}
	if o1.Canon != o2.Canon || fmt.Sprint(s1.Choices()) != fmt.Sprint(s2.Choices()) || s1.Steps != s2.Steps {
		w.Broken("%s: nondeterministic replay: steps %d vs %d, observations differ=%v", name, s1.Steps, s2.Steps, o1.Canon != o2.Canon)
	}
}
