// Package explore holds the explorers (schedule DFS, history BFS, environment deviations) and the
// bookkeeping every check shares: sharding over worker processes, coverage counters, violation
// signatures, evidence files and known findings.
package explore

import (
	"encoding/json"
	"fmt"
	"hash/fnv"
	"os"
	"sort"
	"time"
)

// Violation is one failing execution.
type Violation struct {
	Signature string          `json:"signature"` // property/harness/clause/locus — no choice sequences or offsets
	Detail    string          `json:"detail"`
	Cost      int             `json:"cost"` // deviations / size: smaller is reported first
	Replay    json.RawMessage `json:"replay"`
}

// Result is what one worker reports.
type Result struct {
	Evaluations int64             `json:"evaluations"`
	States      int64             `json:"states"`
	Transitions int64             `json:"transitions"`
	Outcomes    []uint64          `json:"outcomes"` // hashes of distinct non-trivial observations
	Samples     []json.RawMessage `json:"samples"`
	Violations  []Violation       `json:"violations"`
	Caps        []string          `json:"caps"`
	Extra       map[string]int64  `json:"extra"`
	Notes       map[string]string `json:"notes"`
	Error       string            `json:"error,omitempty"` // the check itself is broken
}

// Worker is the per-process context handed to a check.
type Worker struct {
	Check    string
	Tier     string
	Seed     int64
	Index    int
	N        int
	Deadline time.Time
	Thorough bool

	res      Result
	outcomes map[uint64]bool
	vio      map[string]Violation
	maxSamp  int
	counter  int64
}

func NewWorker(check, tier string, seed int64, idx, n int, budget time.Duration) *Worker {
	return &Worker{Check: check, Tier: tier, Seed: seed, Index: idx, N: n, Thorough: tier == "thorough",
		Deadline: time.Now().Add(budget), outcomes: map[uint64]bool{}, vio: map[string]Violation{}, maxSamp: 3,
		res: Result{Extra: map[string]int64{}, Notes: map[string]string{}}}
}

// Mine reports whether work item i belongs to this worker.
func (w *Worker) Mine(i int) bool { return w.N <= 1 || i%w.N == w.Index }

// Next hands out consecutive work-item numbers and reports whether the item is this worker's.
func (w *Worker) Next() bool {
	i := w.counter
	w.counter++
	return w.N <= 1 || int(i%int64(w.N)) == w.Index
}

func (w *Worker) Expired() bool { return time.Now().After(w.Deadline) }

func (w *Worker) Eval()                   { w.res.Evaluations++ }
func (w *Worker) AddStates(n int)         { w.res.States += int64(n) }
func (w *Worker) AddTransitions(n int)    { w.res.Transitions += int64(n) }
func (w *Worker) Count(key string, n int) { w.res.Extra[key] += int64(n) }
func (w *Worker) Max(key string, n int) {
	if int64(n) > w.res.Extra["max:"+key] {
		w.res.Extra["max:"+key] = int64(n)
	}
}
func (w *Worker) Note(key, val string) { w.res.Notes[key] = val }
func (w *Worker) Cap(what string) {
	for _, c := range w.res.Caps {
		if c == what {
			return
		}
	}
	w.res.Caps = append(w.res.Caps, what)
}
func (w *Worker) Broken(format string, a ...interface{}) {
	if w.res.Error == "" {
		w.res.Error = fmt.Sprintf(format, a...)
	}
}

func Hash(s string) uint64 {
	h := fnv.New64a()
	h.Write([]byte(s))
	return h.Sum64()
}

// Outcome records one (non-trivial) observation; distinct ones are counted.
func (w *Worker) Outcome(canon string) {
	w.outcomes[Hash(canon)] = true
}

// Sample keeps a few written-out cases for the evidence file.
func (w *Worker) Sample(v interface{}) {
	if len(w.res.Samples) >= w.maxSamp {
		return
	}
	b, err := json.Marshal(v)
	if err == nil {
		w.res.Samples = append(w.res.Samples, b)
	}
}

// Violation records a failing execution; per signature the cheapest one is kept.
func (w *Worker) Violation(sig, detail string, cost int, replay interface{}) {
	b, _ := json.Marshal(replay)
	if old, ok := w.vio[sig]; ok && old.Cost <= cost {
		return
	}
	if len(detail) > 4000 {
		detail = detail[:4000] + "…"
	}
	w.vio[sig] = Violation{Signature: sig, Detail: detail, Cost: cost, Replay: b}
}

func (w *Worker) HasViolation(sig string) bool { _, ok := w.vio[sig]; return ok }
func (w *Worker) NumViolations() int           { return len(w.vio) }

func (w *Worker) Finish() Result {
	for h := range w.outcomes {
		w.res.Outcomes = append(w.res.Outcomes, h)
	}
	sort.Slice(w.res.Outcomes, func(i, j int) bool { return w.res.Outcomes[i] < w.res.Outcomes[j] })
	var sigs []string
	for s := range w.vio {
		sigs = append(sigs, s)
	}
	sort.Strings(sigs)
	for _, s := range sigs {
		w.res.Violations = append(w.res.Violations, w.vio[s])
	}
	return w.res
}

func (w *Worker) WriteResult(path string) error {
	b, err := json.Marshal(w.Finish())
	if err != nil {
		return err
	}
	return os.WriteFile(path, b, 0644)
}

// Merge combines worker results.
func Merge(rs []Result) Result {
	out := Result{Extra: map[string]int64{}, Notes: map[string]string{}}
	seen := map[uint64]bool{}
	vio := map[string]Violation{}
	caps := map[string]bool{}
	for _, r := range rs {
		out.Evaluations += r.Evaluations
		out.States += r.States
		out.Transitions += r.Transitions
		for _, h := range r.Outcomes {
			seen[h] = true
		}
		if len(out.Samples) < 4 {
			out.Samples = append(out.Samples, r.Samples...)
		}
		for _, v := range r.Violations {
			if old, ok := vio[v.Signature]; !ok || v.Cost < old.Cost {
				vio[v.Signature] = v
			}
		}
		for _, c := range r.Caps {
			caps[c] = true
		}
		for k, v := range r.Extra {
			if len(k) > 4 && k[:4] == "max:" {
				if v > out.Extra[k] {
					out.Extra[k] = v
				}
			} else {
				out.Extra[k] += v
			}
		}
		for k, v := range r.Notes {
			out.Notes[k] = v
		}
		if r.Error != "" && out.Error == "" {
			out.Error = r.Error
		}
	}
	if len(out.Samples) > 5 {
		out.Samples = out.Samples[:5]
	}
	for h := range seen {
		out.Outcomes = append(out.Outcomes, h)
	}
	var sigs []string
	for s := range vio {
		sigs = append(sigs, s)
	}
	sort.Strings(sigs)
	for _, s := range sigs {
		out.Violations = append(out.Violations, vio[s])
	}
	for c := range caps {
		out.Caps = append(out.Caps, c)
	}
	sort.Strings(out.Caps)
	return out
}
