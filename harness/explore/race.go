package explore

import (
	"sort"
	"strings"
)

// RaceReport is one report of the Go race detector whose two accesses are both in repository code.
type RaceReport struct {
	Sites     [2]string
	Text      string
	MapAccess bool // one of the conflicting accesses is a runtime map operation: a real process aborts on it
}

const repoPrefix = "github.com/jhalter/mobius/"

func repoFrame(fn string) bool {
	return strings.HasPrefix(fn, repoPrefix) && !strings.Contains(fn, "/verifh/")
}

// ParseRaceLog extracts the reports in which both conflicting accesses are made by repository code
// (the frame of the access itself or, for map/slice runtime helpers, the first non-runtime frame).
func ParseRaceLog(text string) []RaceReport {
	var out []RaceReport
	seen := map[string]bool{}
	for _, rep := range strings.Split(text, "==================") {
		if !strings.Contains(rep, "WARNING: DATA RACE") {
			continue
		}
		var sites []string
		mapAccess := false
		lines := strings.Split(rep, "\n")
		for i := 0; i < len(lines); i++ {
			l := strings.TrimSpace(lines[i])
			if !(strings.HasPrefix(l, "Write at") || strings.HasPrefix(l, "Read at") || strings.HasPrefix(l, "Previous write at") || strings.HasPrefix(l, "Previous read at")) {
				continue
			}
			site := ""
			for j := i + 1; j < len(lines); j++ {
				f := strings.TrimSpace(lines[j])
				if f == "" {
					break
				}
				if strings.HasPrefix(f, "/") || !strings.HasSuffix(f, ")") {
					continue // file:line lines
				}
				fn := f[:strings.LastIndex(f, "(")]
				if strings.HasPrefix(fn, "runtime.map") {
					mapAccess = true
				}
				if strings.HasPrefix(fn, "runtime.") || strings.HasPrefix(fn, "internal/") {
					continue
				}
				site = fn
				break
			}
			sites = append(sites, site)
		}
		if len(sites) != 2 || !repoFrame(sites[0]) || !repoFrame(sites[1]) {
			continue
		}
		s := []string{strings.TrimPrefix(sites[0], repoPrefix), strings.TrimPrefix(sites[1], repoPrefix)}
		sort.Strings(s)
		key := s[0] + "|" + s[1]
		if seen[key] {
			continue
		}
		seen[key] = true
		out = append(out, RaceReport{Sites: [2]string{s[0], s[1]}, Text: strings.TrimSpace(rep), MapAccess: mapAccess})
	}
	return out
}
