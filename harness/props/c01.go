package props

import (
	"bufio"
	"bytes"
	"encoding/binary"
	"encoding/json"
	"fmt"
	"golang.org/x/text/encoding/charmap"
	"io"
	"os"
	"path/filepath"
	"reflect"
	"runtime/debug"
	"strings"
	"time"

	"github.com/jhalter/mobius/hotline"
	"github.com/jhalter/mobius/verifh/explore"
	"github.com/jhalter/mobius/verifh/ref"
)

// C01: wire format fidelity of every protocol object.

func init() {
	register(&Prop{
		ID:    "C01",
		Level: "model_checking",
		Rule: "explicit-state search of every encoder's drain machine x bounded-exhaustive objects: for each serialisable type all objects over small per-part domains (lengths {0,1,2,3,254,255} for one-byte-prefixed parts, {0,1,2,255,256,4096,65535} for field data, contents {0x00,'a',0xFF}, 0-3 fields) " +
			"are built through the library's own constructors; state = (object incl. its private read cursor, bytes emitted), transition = Read with a buffer of size b for every b in 1..n+1 (n <= 96) or around every power-of-two boundary (larger n); " +
			"every transition must return the next bytes of the independent reference encoding; the search runs to the fixed point, which decides all buffer-size sequences by induction and termination by absence of non-progress transitions; decoders are applied to the reference bytes (also with trailing bytes)",
		Assumptions:    []string{"objects are those the library's constructors/decoders can produce", "reference codec in harness/ref written from the protocol document"},
		Run:            runC01,
		Replay:         replayC01,
		MinOutcomes:    10,
		QuickBudget:    180 * time.Second,
		ThoroughBudget: 25 * time.Minute,
	})
}

type reader interface{ Read([]byte) (int, error) }

type c01Case struct {
	Type string `json:"type"`
	Spec string `json:"spec"` // generator parameters
}

// stateKey: the private/visible integers and slice lengths of the encoder at the top level.
func stateKey(v reflect.Value) string {
	var sb strings.Builder
	for i := 0; i < v.NumField(); i++ {
		f := v.Field(i)
		switch f.Kind() {
		case reflect.Int, reflect.Int64, reflect.Int32:
			fmt.Fprintf(&sb, "%s=%d,", v.Type().Field(i).Name, f.Int())
		case reflect.Slice, reflect.String:
			fmt.Fprintf(&sb, "%s#%d,", v.Type().Field(i).Name, f.Len())
		}
	}
	return sb.String()
}

func bufSizes(n, e int) []int {
	if n <= 96 {
		var b []int
		for i := 1; i <= n+1; i++ {
			b = append(b, i)
		}
		return b
	}
	if n <= 2000 {
		return []int{1, 2, 3, 7, 255, 256, 511, 512, 513, n - 1, n, n + 1}
	}
	// large encodings: buffer sizes around the power-of-two boundaries everywhere, small ones only next to the ends
	b := []int{4095, 4096, 4097, 32767, 32768, 32769, n - 1, n, n + 1}
	if e < 4 || e > n-4 {
		b = append(b, 1, 2, 3, 7, 255, 256, 511, 512, 513)
	}
	return b
}

// drain explores the drain machine of one object. mk returns a fresh copy of the encoder in its
// initial state; clone copies an encoder state.
func drainMachine[T any](w *explore.Worker, c c01Case, initial T, rd func(*T) reader, want []byte) {
	fail := func(clause, detail string) {
		w.Violation("C01/"+c.Type+"/"+clause, fmt.Sprintf("%s %s: %s", c.Type, c.Spec, detail), len(want), c)
	}
	type state struct {
		obj T
		e   int
	}
	n := len(want)
	seen := map[string]int{}
	key := func(s state) string { return stateKey(reflect.ValueOf(s.obj)) }
	frontier := []state{{initial, 0}}
	seen[key(frontier[0])] = 0
	states, trans := 1, 0
	for len(frontier) > 0 {
		s := frontier[0]
		frontier = frontier[1:]
		for _, b := range bufSizes(n, s.e) {
			if b < 1 {
				continue
			}
			cp := s.obj // value copy incl. the private cursor
			buf := make([]byte, b)
			k, err := rd(&cp).Read(buf)
			trans++
			if s.e == n {
				if k != 0 || err != io.EOF {
					fail("no-eof-at-end", fmt.Sprintf("after all %d bytes a Read(%d) returned n=%d err=%v", n, b, k, err))
					return
				}
				continue
			}
			if err != nil && !(err == io.EOF && s.e+k == n && k > 0) {
				fail("error-before-end", fmt.Sprintf("at offset %d of %d Read(%d) returned n=%d err=%v", s.e, n, b, k, err))
				return
			}
			if k == 0 {
				fail("no-progress", fmt.Sprintf("at offset %d of %d Read(%d) returned 0 bytes without error: draining never terminates", s.e, n, b))
				return
			}
			if k > b || s.e+k > n || !bytes.Equal(buf[:k], want[s.e:s.e+k]) {
				fail("bytes-differ-from-wire-layout", fmt.Sprintf("at offset %d of %d Read(%d) returned %d bytes %x, the reference encoding continues %x", s.e, n, b, k, clipb(buf[:min(k, b)], 24), clipb(want[min(s.e, n):], 24)))
				return
			}
			if k < b && s.e+k < n {
				fail("short-read", fmt.Sprintf("at offset %d of %d Read(%d) returned only %d bytes", s.e, n, b, k))
				return
			}
			ns := state{cp, s.e + k}
			kk := key(ns)
			if old, ok := seen[kk]; ok {
				if old != ns.e {
					fail("emitted-count-not-a-function-of-state", fmt.Sprintf("state %s reached with %d and with %d bytes emitted", kk, old, ns.e))
					return
				}
				continue
			}
			seen[kk] = ns.e
			states++
			frontier = append(frontier, ns)
		}
	}
	w.AddStates(states)
	w.AddTransitions(trans)
	w.Outcome(fmt.Sprintf("%s|%d|%d", c.Type, n, states))
}

func pat(n int, c byte) []byte {
	b := make([]byte, n)
	for i := range b {
		b[i] = c
	}
	return b
}

var c01Contents = []byte{0x00, 'a', 0xFF}
var c01Short = []int{0, 1, 2, 3, 254, 255}

func c01Run(w *explore.Worker, c c01Case) {
	defer func() {
		if r := recover(); r != nil {
			w.Violation("C01/"+c.Type+"/codec-panics", fmt.Sprintf("%s %s: %v\n%s", c.Type, c.Spec, r, clip(string(debugStack()), 1500)), 0, c)
		}
	}()
	c01RunInner(w, c)
}

func c01RunInner(w *explore.Worker, c c01Case) {
	var a, b, cc, d int
	fmt.Sscanf(c.Spec, "%d,%d,%d,%d", &a, &b, &cc, &d)
	ch := c01Contents[d%3]
	fail := func(clause, detail string) {
		w.Violation("C01/"+c.Type+"/"+clause, fmt.Sprintf("%s %s: %s", c.Type, c.Spec, detail), a+b, c)
	}
	switch c.Type {
	case "Field":
		data := pat(a, ch)
		f := hotline.NewField([2]byte{byte(b >> 8), byte(b)}, data)
		want := ref.EncodeFields([]ref.Fld{{ID: uint16(b), Data: data}})[2:]
		drainP(w, c, f, want)
		var back hotline.Field
		n, err := back.Write(append(append([]byte(nil), want...), 0xEE, 0xEE, 0xEE))
		if err != nil || n != len(want) || !bytes.Equal(back.Data, data) || back.Type != f.Type || back.FieldSize != f.FieldSize {
			fail("decode", fmt.Sprintf("Field.Write consumed %d of %d, err %v", n, len(want), err))
		}
	case "Transaction":
		// a fields of sizes from b-pattern, type/flags/id/error from cc
		sizes := [][]int{{}, {0}, {1}, {2, 255}, {256, 0, 3}, {65535}, {4096, 4096}, {100, 50, 6000}, {1, 32768 - 30}, {3, 32768 - 29}}[a%10]
		var fs []hotline.Field
		var rfs []ref.Fld
		for i, sz := range sizes {
			dt := pat(sz, c01Contents[(i+d)%3])
			id := uint16(100 + i*7 + b)
			fs = append(fs, hotline.NewField([2]byte{byte(id >> 8), byte(id)}, dt))
			rfs = append(rfs, ref.Fld{ID: id, Data: dt})
		}
		t := hotline.NewTransaction(hotline.TranType{byte(cc), byte(cc * 3)}, hotline.ClientID{0, 1}, fs...)
		t.IsReply = byte(cc % 2)
		t.Flags = byte(cc / 2 % 2)
		t.ErrorCode = [4]byte{0, 0, byte(cc), byte(b)}
		rt := ref.Tx{Flags: t.Flags, IsReply: t.IsReply, Type: uint16(cc)<<8 | uint16(byte(cc*3)), ID: binary.BigEndian.Uint32(t.ID[:]), Err: uint32(cc)<<8 | uint32(byte(b)), Fields: rfs}
		want := rt.Encode()
		drainP(w, c, t, want)
		if sz := t.Size(); binary.BigEndian.Uint32(sz) != uint32(len(want)-20) {
			fail("size-prefix", fmt.Sprintf("Size() = %d, bytes that follow %d", binary.BigEndian.Uint32(sz), len(want)-20))
		}
		// decode: Transaction.Write on the reference bytes (as the scanner hands them over)
		var back hotline.Transaction
		n, err := back.Write(want)
		if err != nil || n != len(want) || len(back.Fields) != len(fs) || back.Type != t.Type || back.ID != t.ID || back.ErrorCode != t.ErrorCode || back.IsReply != t.IsReply {
			fail("decode", fmt.Sprintf("Transaction.Write: n=%d err=%v fields=%d", n, err, len(back.Fields)))
		} else {
			for i := range fs {
				if !bytes.Equal(back.Fields[i].Data, fs[i].Data) || back.Fields[i].Type != fs[i].Type {
					fail("decode-field-differs", fmt.Sprintf("field %d of %d (sizes %v): decoded %d bytes starting %x, original %d bytes starting %x", i, len(fs), sizes, len(back.Fields[i].Data), clipb(back.Fields[i].Data, 8), len(fs[i].Data), clipb(fs[i].Data, 8)))
					break
				}
			}
		}
		// the scanner must cut exactly one transaction off a stream with trailing bytes
		sc := bufio.NewScanner(bytes.NewReader(append(append([]byte(nil), want...), want[:10]...)))
		sc.Buffer(make([]byte, 0, 4096), 1<<20)
		sc.Split(hotline.VerifSplitFuncs()["transaction"])
		if !sc.Scan() || !bytes.Equal(sc.Bytes(), want) {
			fail("scanner", fmt.Sprintf("transaction scanner returned %d bytes for a %d-byte transaction", len(sc.Bytes()), len(want)))
		}
	case "User":
		name := string(pat([]int{0, 1, 2, 3, 254, 255, 505, 600}[a%8], ch))
		for _, iconLen := range []int{2, 4, 0, 1, 3} {
			// the icon is whatever bytes the client put into its icon field (clients send 2 or 4, a field may
			// also be absent or odd-sized): the record always carries it as a 16-bit number
			icon := []byte{0, 7}
			flags := []byte{0, byte(b)}
			switch iconLen {
			case 4:
				icon = []byte{0, 0, 0, 7}
				flags = []byte{0, 0, 0, byte(b)}
			case 0:
				icon = nil
			case 1:
				icon = []byte{7}
			case 3:
				icon = []byte{0, 0, 7}
			}
			u := hotline.User{ID: [2]byte{byte(cc), byte(d)}, Icon: icon, Flags: flags, Name: name}
			iconVal := uint16(7)
			if iconLen == 0 {
				iconVal = 0
			}
			want := ref.EncodeUserInfo(ref.UserInfo{ID: uint16(cc)<<8 | uint16(byte(d)), Icon: iconVal, Flags: uint16(byte(b)), Name: name})
			cs := c
			cs.Spec += fmt.Sprintf(" icon%d", iconLen)
			drainP(w, cs, u, want)
			var back hotline.User
			n, err := back.Write(append(append([]byte(nil), want...), 1, 2, 3))
			if err != nil || n != len(want) || back.Name != name || back.ID != u.ID {
				fail("decode", fmt.Sprintf("User.Write n=%d err=%v", n, err))
			}
		}
	case "Account":
		acc := hotline.Account{Login: string(pat(c01Short[a%6], ch)), Name: string(pat(c01Short[b%6], 'n')), Access: hotline.AccessBitmap{byte(cc), 0xF0, 1}}
		withPw := d%2 == 1
		if withPw {
			acc.Password = hotline.HashAndSalt([]byte("pw"))
		} else {
			acc.Password = hotline.HashAndSalt([]byte(""))
		}
		rf := []ref.Fld{{ID: ref.FUserName, Data: []byte(acc.Name)}, {ID: ref.FUserLogin, Data: ref.Obfuscate([]byte(acc.Login))}, {ID: ref.FUserAccess, Data: acc.Access[:]}}
		if withPw {
			rf = append(rf, ref.Fld{ID: ref.FUserPassword, Data: []byte("x")})
		}
		drainP(w, c, acc, ref.EncodeFields(rf))
	case "FileNameWithInfo":
		name := pat(c01Short[a%6], ch)
		var f hotline.FileNameWithInfo
		f.Type, f.Creator = [4]byte{'T', 'E', 'X', 'T'}, [4]byte{'t', 't', 'x', 't'}
		binary.BigEndian.PutUint32(f.FileSize[:], uint32(b)*1000003)
		binary.BigEndian.PutUint16(f.NameSize[:], uint16(len(name)))
		f.Name = name
		want := append([]byte("TEXTttxt"), binary.BigEndian.AppendUint32(nil, uint32(b)*1000003)...)
		want = append(want, 0, 0, 0, 0, 0, 0)
		want = binary.BigEndian.AppendUint16(want, uint16(len(name)))
		want = append(want, name...)
		drainP(w, c, f, want)
		var back hotline.FileNameWithInfo
		if _, err := back.Write(want); err != nil || !bytes.Equal(back.Name, name) || back.FileSize != f.FileSize {
			fail("decode", fmt.Sprintf("FileNameWithInfo.Write err=%v name %d bytes", err, len(back.Name)))
		}
		if e, err := ref.DecodeFileListEntry(want); err != nil || e.Name != string(name) {
			fail("reference-decoder-disagrees", fmt.Sprint(err))
		}
	case "InfoFork":
		name := pat([]int{0, 1, 2, 31, 128, 255, 65461, 65535}[a%8], ch) // the name has a two-byte length prefix
		comment := pat([]int{0, 1, 2, 255, 256, 1000}[b%6], 'c')
		f := hotline.NewFlatFileInformationFork(string(name), [8]byte{7, 0xe8, 0, 0, 0, 0, 0, byte(cc)}, "TEXT", "ttxt")
		if len(comment) > 0 || d%2 == 0 {
			_ = f.SetComment(comment)
		}
		rf := ref.InfoFork{Platform: ref.Sig("AMAC"), Type: ref.Sig("TEXT"), Creator: ref.Sig("ttxt"), PlatformFlags: [4]byte{0, 0, 1, 0}, CreateDate: [8]byte{7, 0xe8, 0, 0, 0, 0, 0, byte(cc)}, ModifyDate: [8]byte{7, 0xe8, 0, 0, 0, 0, 0, byte(cc)}, Name: name, Comment: comment}
		want := rf.Encode()
		drainP(w, c, f, want)
		if sz := f.Size(); int(binary.BigEndian.Uint32(sz[:])) != len(want) || int(binary.BigEndian.Uint32(f.DataSize())) != len(want) {
			fail("size-prefix", fmt.Sprintf("Size()=%d DataSize()=%d, encoding has %d bytes", binary.BigEndian.Uint32(sz[:]), binary.BigEndian.Uint32(f.DataSize()), len(want)))
		}
		for _, form := range []bool{false, true} {
			rf.NoCommentSize = form
			enc := rf.Encode()
			var back, back2 hotline.FlatFileInformationFork
			_, err1 := back.Write(enc)
			err2 := back2.UnmarshalBinary(enc)
			if err1 != nil || err2 != nil || !bytes.Equal(back.Name, name) || !bytes.Equal(back2.Name, name) || !bytes.Equal(back.Comment, comment) || !bytes.Equal(back2.Comment, comment) {
				fail("decode", fmt.Sprintf("Write/UnmarshalBinary (comment size omitted=%v): errs %v %v name %d/%d comment %d/%d", form && len(comment) == 0, err1, err2, len(back.Name), len(back2.Name), len(back.Comment), len(back2.Comment)))
			}
		}
		// the flattened file object that carries it
		ds, rs := uint32(b)*4099, uint32(cc)*17
		ffo := hotline.VerifNewFFO(f, [4]byte(binary.BigEndian.AppendUint32(nil, ds)), [4]byte(binary.BigEndian.AppendUint32(nil, rs)), [2]byte{0, 2})
		full := ref.FlatFile(rf2(rf), make([]byte, 0), nil)
		wantFFO := append([]byte(nil), full[:len(full)-4]...)
		wantFFO = binary.BigEndian.AppendUint32(wantFFO, ds)
		cs := c
		cs.Type = "flattenedFileObject"
		drainP(w, cs, *ffo, wantFFO)
		if ts := binary.BigEndian.Uint32(ffo.TransferSize(0)); ts != uint32(len(wantFFO))+ds+rs {
			w.Violation("C01/flattenedFileObject/size-prefix", fmt.Sprintf("TransferSize(0)=%d, header %d + data %d + resource %d", ts, len(wantFFO), ds, rs), 0, cs)
		}
		pf, err := ref.ParseFlat(append(append([]byte(nil), wantFFO...)))
		if err != nil || pf.InfoProblem != "" || pf.Name != string(name) {
			w.Violation("C01/flattenedFileObject/reference-parser-disagrees", fmt.Sprintf("%v %s", err, pf.InfoProblem), 0, cs)
		}
		// decoding reads from a stream: the same bytes delivered whole, one at a time, in pieces of 7 and cut
		// once inside the information fork yield the same object
		enc := ref.FlatFile(rf2(rf), pat(5, 1), nil)
		for _, piece := range []int{0, 1, 7, 24 + 16 + 72 + 1} {
			var rd io.Reader = bytes.NewReader(enc)
			if piece > 0 {
				rd = &pieceReader{b: enc, n: piece}
			}
			info2, fc, dsz, err := func() (i hotline.FlatFileInformationFork, f [2]byte, d int64, e error) {
				defer func() {
					if r := recover(); r != nil {
						e = fmt.Errorf("panic: %v", r)
					}
				}()
				return hotline.VerifFFOReadFrom(rd)
			}()
			if err != nil || !bytes.Equal(info2.Name, name) || !bytes.Equal(info2.Comment, comment) || fc != [2]byte{0, 2} || dsz != 5 {
				w.Violation("C01/flattenedFileObject/decode", fmt.Sprintf("ReadFrom (reader delivering %d bytes per call, 0 = all): err=%v name %d comment %d forks %v data %d", piece, err, len(info2.Name), len(info2.Comment), fc, dsz), 0, cs)
			}
		}
	case "FileHeader":
		long17 := make([]string, 17) // 17 items of 255 bytes: 4,388 bytes, more than the 4,096-byte start buffer of the item scanner
		for i := range long17 {
			long17[i] = string(pat(255, ch+byte(i)))
		}
		segs := [][]string{{"a"}, {"a", "b"}, {"dir", "sub", "x.txt"}, {string(pat(255, ch))}, {"", "x"}, {"a b", "é"}, long17, long17[:16]}[a%8]
		fh := hotline.NewFileHeader(strings.Join(segs, "/"), b%2 == 1)
		want := ref.ItemHeader(b%2 == 1, segs...)
		diskJoined := strings.Join(segs, "/")
		// a folder-download item header: size, type, path (count + items); same layout as the upload item header
		_ = want
		// names are UTF-8 in the server's file tree and Mac Roman on the wire (a name that cannot be encoded is sent
		// as it is); what arrives is decoded from Mac Roman
		diskSegs := segs
		segs = nil
		var decoded []string
		for _, s := range diskSegs {
			wire := string(macRoman(s))
			segs = append(segs, wire)
			dec, _ := charmap.Macintosh.NewDecoder().String(wire)
			decoded = append(decoded, dec)
		}
		var path []byte
		path = binary.BigEndian.AppendUint16(path, uint16(len(segs)))
		for _, s := range segs {
			path = append(path, 0, 0, byte(len(s)))
			path = append(path, s...)
		}
		hdr := binary.BigEndian.AppendUint16(nil, uint16(len(path)+2))
		hdr = append(hdr, 0, byte(b%2))
		hdr = append(hdr, path...)
		drainP(w, c, fh, hdr)
		if it, err := ref.DecodeFolderItem(hdr); err != nil || strings.Join(it.Path, "/") != strings.Join(segs, "/") {
			fail("reference-decoder-disagrees", fmt.Sprint(err))
		}
		if !bytes.Equal(hotline.EncodeFilePath(diskJoined), path) {
			fail("EncodeFilePath", fmt.Sprintf("%x vs %x", hotline.EncodeFilePath(diskJoined), path))
		}
		var fp hotline.FilePath
		if _, err := fp.Write(path); err != nil || len(fp.Items) != len(segs) {
			fail("decode", fmt.Sprintf("FilePath.Write err=%v items=%d", err, len(fp.Items)))
		} else {
			for i := range segs {
				if string(fp.Items[i].Name) != segs[i] {
					fail("decode", fmt.Sprintf("FilePath item %d = %q want %q", i, fp.Items[i].Name, segs[i]))
				}
			}
		}
		if got := hotline.VerifFormattedPath([2]byte{0, byte(len(segs))}, path[2:]); len(segs) > 0 && segs[0] != "" && !strings.Contains(strings.Join(segs, "/"), "//") && strings.TrimPrefix(got, "/") != strings.Join(decoded, "/") && a%6 != 4 {
			fail("decode-folder-upload-path", fmt.Sprintf("FormattedPath %q for wire %q, want %q", got, segs, decoded))
		}
	case "NewsArtList":
		title, poster := pat(c01Short[a%6], ch), pat(c01Short[b%6], 'p')
		e := hotline.NewsArtList{ID: [4]byte{0, 0, byte(cc), 1}, TimeStamp: [8]byte{7, 0xe8, 0, 0, 0, 1, 2, 3}, ParentID: [4]byte{0, 0, 0, byte(d)}, Title: title, Poster: poster, ArticleSize: [2]byte{byte(a), byte(b)}}
		want := ref.EncodeNewsListEntry(ref.NewsListEntry{ID: uint32(cc)<<8 | 1, Date: e.TimeStamp, Parent: uint32(d), Title: string(title), Poster: string(poster), Flavors: []string{"text/plain"}, ArtSizes: []uint16{uint16(a)<<8 | uint16(byte(b))}})
		drainP(w, c, e, want)
		// the list that carries entries
		l := hotline.NewsArtListData{Count: 1, Name: []byte{}, Description: []byte{}, NewsArtList: want}
		wantL := append(make([]byte, 4), 0, 0, 0, 1, 0, 0)
		wantL = append(wantL, want...)
		cs := c
		cs.Type = "NewsArtListData"
		drainP(w, cs, l, wantL)
		if dl, err := ref.DecodeNewsList(wantL); err != nil || len(dl.Articles) != 1 || dl.Articles[0].Title != string(title) {
			fail("reference-decoder-disagrees", fmt.Sprint(err))
		}
	case "NewsCategory":
		name := string(pat(c01Short[a%6], ch))
		for _, typ := range [][2]byte{hotline.NewsBundle, hotline.NewsCategory} {
			n := hotline.NewsCategoryListData15{Type: typ, Name: name, Articles: map[uint32]*hotline.NewsArtData{}, SubCats: map[string]hotline.NewsCategoryListData15{}}
			for i := 0; i < b%3; i++ {
				n.Articles[uint32(i+1)] = &hotline.NewsArtData{Title: "t"}
			}
			for i := 0; i < cc%3; i++ {
				n.SubCats[fmt.Sprint(i)] = hotline.NewsCategoryListData15{}
			}
			want := ref.EncodeNewsCat(ref.NewsCatEntry{Type: uint16(typ[1]), Count: uint16(b%3 + cc%3), Name: name})
			cs := c
			cs.Spec += fmt.Sprintf(" type%d", typ[1])
			drainP(w, cs, n, want)
		}
	case "Tracker":
		tr := hotline.TrackerRegistration{Port: [2]byte{0x15, 0x7c}, UserCount: cc*257 + d, PassID: [4]byte{1, 2, 3, 4}, Name: string(pat(c01Short[a%6], ch)), Description: string(pat(c01Short[b%6], 'd')), Password: string(pat(c01Short[(a+b)%6], 'p'))}
		want := []byte{0, 1, 0x15, 0x7c}
		want = binary.BigEndian.AppendUint16(want, uint16(cc*257+d))
		want = append(want, 0, 0, 1, 2, 3, 4, byte(len(tr.Name)))
		want = append(want, tr.Name...)
		want = append(want, byte(len(tr.Description)))
		want = append(want, tr.Description...)
		want = append(want, byte(len(tr.Password)))
		want = append(want, tr.Password...)
		drainP(w, c, tr, want)
	case "FileList":
		// the file list records the server builds for a real directory (names incl. Mac-Roman representable ones)
		dir, err := os.MkdirTemp(os.Getenv("VERIF_SCRATCH"), "c01-")
		if err != nil {
			w.Broken("mkdtemp: %v", err)
			return
		}
		defer os.RemoveAll(dir)
		names := [][]string{{"a"}, {"café menu.txt", "b"}, {"été", "Résumé.txt", "x y"}, {strings.Repeat("n", 200)}, {"ü", "plain.txt", "sub"}}[a%5]
		for i, n := range names {
			if n == "sub" {
				_ = os.MkdirAll(filepath.Join(dir, n, "k"), 0755)
				continue
			}
			_ = os.WriteFile(filepath.Join(dir, n), pat(i*7+b, 'z'), 0644)
		}
		fields, err := hotline.GetFileNameList(dir, nil)
		if err != nil || len(fields) != len(names) {
			fail("file-list", fmt.Sprintf("GetFileNameList: %d records for %d entries, err %v", len(fields), len(names), err))
			return
		}
		for _, f := range fields {
			e, err := ref.DecodeFileListEntry(f.Data)
			if err != nil {
				fail("file-list-record-length-prefix", fmt.Sprintf("%v: %x", err, clipb(f.Data, 60)))
				continue
			}
			found := false
			for _, n := range names {
				if string(macRoman(n)) == e.Name {
					found = true
				}
			}
			if !found {
				fail("file-list-record-name", fmt.Sprintf("record name %q is not the Mac-Roman form of any of %q", e.Name, names))
			}
			var back hotline.FileNameWithInfo
			if _, err := back.Write(f.Data); err != nil || string(back.Name) != e.Name {
				fail("decode", fmt.Sprintf("FileNameWithInfo.Write on a list record: %v", err))
			}
		}
		w.Outcome(fmt.Sprintf("FileList|%d", a%5))
	case "Misc":
		// resume data, time, integers, news paths, handshake, transfer preamble, server record
		off := uint32(a)*65537 + uint32(b)
		rd := hotline.NewFileResumeData([]hotline.ForkInfoList{*hotline.NewForkInfoList(binary.BigEndian.AppendUint32(nil, off))})
		enc, _ := rd.BinaryMarshal()
		if !bytes.Equal(enc, ref.ResumeData(off, nil)) {
			fail("resume-data-encoding", fmt.Sprintf("%x vs %x", enc, ref.ResumeData(off, nil)))
		}
		var back hotline.FileResumeData
		if err := back.UnmarshalBinary(ref.ResumeData(off, nil)); err != nil || len(back.ForkInfoList) != 1 || binary.BigEndian.Uint32(back.ForkInfoList[0].DataSize[:]) != off {
			fail("resume-data-decode", fmt.Sprint(err))
		}
		tm := time.Date(2000+a, time.Month(1+b%12), 1+cc%28, d%24, 7, 9, 0, time.Local)
		if got, want := hotline.NewTime(tm), hotlineDate(tm); [8]byte(got) != want {
			fail("time-encoding", fmt.Sprintf("%x vs %x", got, want))
		}
		for _, n := range []int{2, 4} {
			f := hotline.Field{Data: binary.BigEndian.AppendUint32(nil, off)[4-n:]}
			v, err := f.DecodeInt()
			wantV := int(off)
			if n == 2 {
				wantV = int(uint16(off))
			}
			if err != nil || v != wantV {
				fail("decode-int", fmt.Sprintf("%d bytes: %d err %v want %d", n, v, err, wantV))
			}
		}
		// the split functions see whatever prefix of the stream the scanner's buffer happens to hold: for every
		// prefix they either ask for more or cut exactly the first token, and never reach beyond the data
		{
			t1 := ref.Tx{Type: uint16(100 + a), ID: off, Fields: []ref.Fld{{ID: 101, Data: pat(a*9, ch)}}}.Encode()
			f1 := ref.EncodeFields([]ref.Fld{{ID: 102, Data: pat(a*37%300, ch)}})[2:]
			i1 := append([]byte{0, 0, byte(a * 36)}, pat(a*36, ch)...)
			for name, first := range map[string][]byte{"transaction": t1, "field": f1, "fileItem": i1} {
				split := hotline.VerifSplitFuncs()[name]
				stream := append(append([]byte(nil), first...), first...)
				for k := 0; k <= len(stream); k++ {
					adv, tok, err := split(stream[:k:k], false)
					switch {
					case err != nil || adv > k:
						fail("split-function", fmt.Sprintf("%s: %d bytes buffered: advance %d err %v", name, k, adv, err))
					case k >= len(first) && (adv != len(first) || !bytes.Equal(tok, first)):
						fail("split-function", fmt.Sprintf("%s: %d bytes buffered hold the whole %d-byte token: advance %d, token %d bytes", name, k, len(first), adv, len(tok)))
					case k < len(first) && (adv != 0 || tok != nil):
						fail("split-function", fmt.Sprintf("%s: %d of %d token bytes buffered: advance %d, token %d bytes", name, k, len(first), adv, len(tok)))
					}
				}
			}
		}
		long17 := make([]string, 17)
		for i := range long17 {
			long17[i] = string(pat(255, ch+byte(i)))
		}
		segs := [][]string{{}, {"a"}, {"Top Level Bundle", "Second", "Cat"}, {string(pat(255, ch))}, long17}[a%5]
		np := hotline.Field{Data: ref.NewsPathBytes(segs...)}
		if len(segs) == 0 {
			np.Data = nil
		}
		got, err := np.DecodeNewsPath()
		if err != nil || strings.Join(got, "\x00") != strings.Join(segs, "\x00") {
			fail("decode-news-path", fmt.Sprintf("%q err %v want %q", got, err, segs))
		}
		hs := []byte{'T', 'R', 'T', 'P', 'H', 'O', 'T', 'L', byte(a), byte(b), byte(cc), byte(d)}
		p1, p2, v1, v2, n, valid, err := hotline.VerifHandshakeWrite(hs)
		if err != nil || n != 12 || !valid || string(p1[:]) != "TRTP" || string(p2[:]) != "HOTL" || v1 != [2]byte{byte(a), byte(b)} || v2 != [2]byte{byte(cc), byte(d)} {
			fail("handshake-decode", fmt.Sprint(err))
		}
		pre := ref.Preamble([]byte{byte(a), byte(b), byte(cc), byte(d)}, off)
		pp, rn, dsz, n2, err := hotline.VerifTransferWrite(pre)
		if err != nil || n2 != 16 || string(pp[:]) != "HTXF" || rn != [4]byte{byte(a), byte(b), byte(cc), byte(d)} || binary.BigEndian.Uint32(dsz[:]) != off {
			fail("transfer-preamble-decode", fmt.Sprint(err))
		}
		name, desc := pat(c01Short[a%6], ch), pat(c01Short[b%6], 'd')
		rec := []byte{10, 0, 0, byte(cc), 0x15, 0x7c, 0, byte(d), 0, 0, byte(len(name))}
		rec = append(rec, name...)
		rec = append(rec, byte(len(desc)))
		rec = append(rec, desc...)
		var sr hotline.ServerRecord
		if len(rec) >= 13 {
			n3, err := sr.Write(append(append([]byte(nil), rec...), 9, 9))
			if err != nil || n3 != len(rec) || !bytes.Equal(sr.Name, name) || !bytes.Equal(sr.Description, desc) || sr.Port != [2]byte{0x15, 0x7c} {
				fail("server-record-decode", fmt.Sprintf("n=%d err=%v", n3, err))
			}
		}
	}
}

// drainP lets the element type be inferred (also for types the harness cannot name).
func drainP[T any, P interface {
	*T
	reader
}](w *explore.Worker, c c01Case, initial T, want []byte) {
	drainMachine(w, c, initial, func(p *T) reader { return P(p) }, want)
}

func rf2(f ref.InfoFork) ref.InfoFork { f.NoCommentSize = false; return f }

func c01Cases(thorough bool) []c01Case {
	var cs []c01Case
	add := func(t string, a, b, c, d int) { cs = append(cs, c01Case{t, fmt.Sprintf("%d,%d,%d,%d", a, b, c, d)}) }
	for _, sz := range []int{0, 1, 2, 3, 255, 256, 4096, 65535} {
		for d := 0; d < 3; d++ {
			add("Field", sz, 100+d*100, 0, d)
		}
	}
	for a := 0; a < 10; a++ {
		for cc := 0; cc < 4; cc++ {
			add("Transaction", a, cc*3, cc*5+1, a+cc)
		}
	}
	for a := 0; a < 8; a++ {
		for d := 0; d < 3; d++ {
			add("User", a, a+d, d*9, d)
		}
	}
	for a := 0; a < 6; a++ {
		for b := 0; b < 2; b++ {
			add("Account", a, a+b, a*3, a+b)
		}
	}
	for a := 0; a < 6; a++ {
		for d := 0; d < 3; d++ {
			add("FileNameWithInfo", a, a*7+d, 0, d)
			add("Tracker", a, (a+d)%6, d, a)
			add("NewsCategory", a, d, (a+d)%3, d)
			add("FileHeader", a, d, 0, d)
		}
		if a < 2 {
			add("FileHeader", 6+a, 1, 0, a) // paths longer than the item scanner's start buffer
			add("InfoFork", 6+a, a, 1, 0)   // names near the limit of the two-byte length prefix
		}
		for b := 0; b < 6; b++ {
			add("InfoFork", a, b, a+b, a*b)
			add("NewsArtList", a, b, a+1, b)
		}
	}
	for a := 0; a < 8; a++ {
		add("Misc", a, a*31, a*7, a*3)
	}
	for a := 0; a < 5; a++ {
		add("FileList", a, a+1, 0, 0)
	}
	return cs
}

func runC01(w *explore.Worker) {
	cs := c01Cases(w.Thorough)
	for i, c := range cs {
		if !w.Next() {
			continue
		}
		if w.Expired() {
			w.Cap("time budget reached")
			return
		}
		w.Eval()
		c01Run(w, c)
		if i%41 == 0 {
			w.Sample(c)
		}
	}
	if w.Index == 0 {
		w.Count("objects", len(cs))
	}
}

func replayC01(w *explore.Worker, raw json.RawMessage) {
	var c c01Case
	if err := json.Unmarshal(raw, &c); err != nil {
		w.Broken("bad replay: %v", err)
		return
	}
	c.Type = strings.Replace(strings.Replace(c.Type, "flattenedFileObject", "InfoFork", 1), "NewsArtListData", "NewsArtList", 1)
	c.Spec = strings.SplitN(c.Spec, " ", 2)[0]
	c01Run(w, c)
}

func debugStack() []byte { return debug.Stack() }

// pieceReader delivers b in pieces of at most n bytes (the first piece has n bytes, so that n marks a cut).
type pieceReader struct {
	b []byte
	n int
}

func (p *pieceReader) Read(q []byte) (int, error) {
	if len(p.b) == 0 {
		return 0, io.EOF
	}
	k := p.n
	if k > len(p.b) {
		k = len(p.b)
	}
	if k > len(q) {
		k = len(q)
	}
	copy(q, p.b[:k])
	p.b = p.b[k:]
	return k, nil
}
