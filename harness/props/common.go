package props

import (
	"encoding/json"
	"fmt"
	"strings"

	"gopkg.in/yaml.v3"

	"github.com/jhalter/mobius/verifh/explore"
	"github.com/jhalter/mobius/verifh/vrt"
)

const seqHorizon = 200000

// seq runs body as the main thread of one execution under the default (run-to-block, FIFO)
// schedule and reports panics of managed threads and wedges it finds at the end.
func seq(body func()) *vrt.Sched {
	return vrt.Run(vrt.DefaultChooser{}, seqHorizon, body)
}

// seqChecked = seq + generic process-level oracles (no un-recovered panic in a spawned thread).
func seqChecked(w *explore.Worker, prop, harness string, replay interface{}, body func()) *vrt.Sched {
	s := seq(body)
	if s.Status == vrt.StatusHorizon {
		w.Cap(harness + ": step horizon hit")
	}
	for _, p := range s.Panics() {
		if strings.HasPrefix(p, "main: ") {
			w.Broken("%s: harness panic: %s", harness, p)
			continue
		}
		w.Violation(prop+"/"+harness+"/unrecovered-panic/"+vrt.PanicSite(p), "a server goroutine died with an un-recovered panic (the process would have exited): "+p, 0, replay)
	}
	return s
}

func js(v interface{}) string { b, _ := json.Marshal(v); return string(b) }

func bitsString(b [8]byte) string { return fmt.Sprintf("%02x%02x%02x%02x%02x%02x%02x%02x", b[0], b[1], b[2], b[3], b[4], b[5], b[6], b[7]) }

func setBits(is ...int) [8]byte {
	var b [8]byte
	for _, i := range is {
		b[i/8] |= 0x80 >> uint(i%8)
	}
	return b
}

func bitList(b [8]byte) []int {
	var l []int
	for i := 0; i < 64; i++ {
		if b[i/8]&(0x80>>uint(i%8)) != 0 {
			l = append(l, i)
		}
	}
	return l
}

func allBut(is ...int) [8]byte {
	b := [8]byte{255, 255, 255, 255, 255, 255, 255, 255}
	for _, i := range is {
		b[i/8] &^= 0x80 >> uint(i%8)
	}
	return b
}

func yamlMarshal(v interface{}) ([]byte, error) { return yaml.Marshal(v) }
