package props

import (
	"encoding/json"
	"fmt"
	"os"
	"path/filepath"
	"strings"
	"time"

	"github.com/jhalter/mobius/verifh/explore"
	"github.com/jhalter/mobius/verifh/ref"
	"github.com/jhalter/mobius/verifh/vrt"
	"github.com/jhalter/mobius/verifh/world"
)

// C19: message board and agreement are served whole and lose no post.

func init() {
	register(&Prop{
		ID:    "C19",
		Level: "model_checking",
		Rule: "E-SCHED: stateless exploration of every schedule with at most `bound` deviations (incl. hold-back) of harnesses on the real handlers and login path: two readers + one poster of the message board, two posters, two logins being shown the agreement, " +
			"reader + login; board/agreement sizes {0,1,511,512,513,2000,40000,65000} so that io.ReadAll needs 1..~26 locked Read calls; oracle: every served text is one the store held in full at some instant of the call window (linearizability-style, candidates = the sequence of board values), " +
			"all posts present newest first in the protocol's format, every connected user notified, MessageBoard.txt equals the new text at quiescence; plus a sequential size sweep",
		Assumptions: []string{"scheduling points at sync/atomic/channel/connection/file-system operations", "3 clients; deviation bound as reported"},
		Run:            runC19,
		Replay:         replayC19,
		MinOutcomes:    3,
		QuickBudget:    300 * time.Second,
		ThoroughBudget: 25 * time.Minute,
	})
}

type c19Params struct {
	Scenario string `json:"scenario"` // readers+poster | posters | logins | reader+login | sweep
	Size     int    `json:"size"`
}

func (p c19Params) String() string { b, _ := json.Marshal(p); return string(b) }

func c19Text(n int, tag string) string {
	var sb strings.Builder
	for sb.Len() < n {
		fmt.Fprintf(&sb, "%s%06d|", tag, sb.Len())
	}
	return sb.String()[:n]
}

// c19Post is the protocol's board post format: "From <name> (<date>):\r\r<text>\r\r" + delimiter + "\r".
func c19Post(name, text string, at time.Time) string {
	s := fmt.Sprintf("From %s (%s):\n\n%s\n\n__________________________________________________________\r", name, at.Format("Jan02 15:04"), text)
	return strings.ReplaceAll(s, "\n", "\r")
}

func c19Body(p c19Params) func() explore.SchedOutcome {
	return func() (out explore.SchedOutcome) {
		vrt.BeginSetup()
		board0 := c19Text(p.Size, "B")
		agreement := c19Text(p.Size, "A")
		delim := ""
		if p.Scenario == "delimiter" {
			delim = []string{"----------", "100% ~~~ %s"}[p.Size%2]
		}
		wd := world.New(world.Cfg{Board: board0, Agreement: agreement, NewsDelimiter: delim, Accounts: []world.Acct{
			{Login: "guest", Name: "Guest"},
			{Login: "u", Name: "u", Password: "pw", Access: world.Without(world.AllAccess, ref.PNoAgreement)},
		}})
		defer wd.Close()
		fail := func(clause, detail string) {
			out.Violations = append(out.Violations, explore.SchedV{Signature: "C19/" + p.Scenario + "/" + clause, Detail: fmt.Sprintf("params %s: %s", p, detail)})
		}
		describe := func(got string, cands []string) string {
			for i, c := range cands {
				if got == c {
					return fmt.Sprintf("candidate#%d", i)
				}
			}
			return fmt.Sprintf("NONE(len=%d, candidates %v, common prefix with newest %d, starts %q, newest starts %q)", len(got), lens(cands), commonPrefix([]byte(got), []byte(cands[len(cands)-1])), clip(got, 120), clip(cands[len(cands)-1], 120))
		}
		connect := func(i int) *world.Client {
			c, r := wd.Connect(fmt.Sprintf("10.0.0.%d:%d", i, 1000+i), "u", "pw", fmt.Sprintf("n%d", i))
			if r == nil || r.Err != 0 {
				fail("setup", "login failed")
			}
			c.New()
			return c
		}
		now := vrt.Now()
		var obs []string
		switch p.Scenario {
		case "readers+poster", "posters", "sweep":
			a, b, c := connect(1), connect(2), connect(3)
			var idA, idB, idC uint32
			post1 := c19Post("n3", "hello board", now)
			cands := []string{board0, post1 + board0}
			if p.Scenario == "posters" {
				post2 := c19Post("n2", "second post", now)
				idA = a.Send(ref.Tx{Type: ref.TGetMsgs})
				idB = b.Send(ref.Tx{Type: ref.TOldPostNews, Fields: []ref.Fld{ref.FS(ref.FData, "second post")}})
				idC = c.Send(ref.Tx{Type: ref.TOldPostNews, Fields: []ref.Fld{ref.FS(ref.FData, "hello board")}})
				cands = []string{board0, post1 + board0, post2 + board0, post1 + post2 + board0, post2 + post1 + board0}
			} else {
				idA = a.Send(ref.Tx{Type: ref.TGetMsgs})
				if p.Scenario != "sweep" {
					idB = b.Send(ref.Tx{Type: ref.TGetMsgs})
					idC = c.Send(ref.Tx{Type: ref.TOldPostNews, Fields: []ref.Fld{ref.FS(ref.FData, "hello board")}})
				}
			}
			vrt.EndSetup()
			vrt.WaitQuiet()
			for _, rd := range []struct {
				c  *world.Client
				id uint32
			}{{a, idA}, {b, idB}} {
				if rd.id == 0 || (p.Scenario == "posters" && rd.c == b) {
					continue
				}
				r := rd.c.Reply(rd.id)
				if r == nil || r.Err != 0 {
					fail("reader-not-answered", fmt.Sprint(r))
					continue
				}
				got := fieldStr(r, ref.FData)
				d := describe(got, cands)
				if strings.HasPrefix(d, "NONE") {
					fail("served-text-was-never-the-complete-board", fmt.Sprintf("%s received a text of %d bytes that is none of the values the board held: %s", rd.c.Name, len(got), d))
				}
				obs = append(obs, rd.c.Name+"="+d)
			}
			if p.Scenario != "sweep" {
				// the final board: all posts, newest first, in memory (a fresh read) and on disk
				id := a.Req(ref.TGetMsgs)
				world.Quiet()
				final := fieldStr(a.Reply(id), ref.FData)
				disk, _ := os.ReadFile(filepath.Join(wd.ConfigDir, "MessageBoard.txt"))
				wantFinal := cands[1:]
				if p.Scenario == "posters" {
					wantFinal = cands[3:]
				}
				ok := false
				for _, wf := range wantFinal {
					if final == wf {
						ok = true
					}
				}
				if !ok {
					fail("post-lost-or-board-malformed", fmt.Sprintf("final board (%d bytes) is %s", len(final), describe(final, cands)))
				}
				if string(disk) != final {
					fail("acknowledged-post-not-on-disk", fmt.Sprintf("MessageBoard.txt has %d bytes (%s), the served board %d bytes", len(disk), describe(string(disk), cands), len(final)))
				}
				posters := []*world.Client{c}
				ids := []uint32{idC}
				if p.Scenario == "posters" {
					posters, ids = []*world.Client{b, c}, []uint32{idB, idC}
				}
				for i, pc := range posters {
					if r := pc.Reply(ids[i]); r == nil || r.Err != 0 {
						fail("post-not-acknowledged", fmt.Sprintf("%s: %v", pc.Name, r))
					}
				}
				// every connected user was told about every post
				for _, cl := range []*world.Client{a, b, c} {
					n := 0
					for _, t := range cl.Inbox {
						if t.Type == ref.TNewMsg {
							n++
						}
					}
					if n != len(posters) {
						fail("user-not-notified-of-post", fmt.Sprintf("%s received %d new-post notices, %d posts were made", cl.Name, n, len(posters)))
					}
				}
				obs = append(obs, "final="+describe(final, cands))
			}
		case "reload+poster":
			// the operator has the board re-read from its file (SIGHUP / API) while a user posts: the post is kept
			a, b := connect(1), connect(2)
			rl, ok := wd.Srv.MessageBoard.(interface{ Reload() error })
			if !ok {
				fail("setup", "the board store has no Reload")
				break
			}
			pid := a.Send(ref.Tx{Type: ref.TOldPostNews, Fields: []ref.Fld{ref.FS(ref.FData, "hello board")}})
			vrt.GoNamed("reload", func() { _ = rl.Reload() })
			vrt.EndSetup()
			vrt.WaitQuiet()
			if r := a.Reply(pid); r == nil || r.Err != 0 {
				fail("post-refused", fmt.Sprint(r))
			}
			want := c19Post("n1", "hello board", now) + board0
			id := b.Req(ref.TGetMsgs)
			world.Quiet()
			if got := fieldStr(b.Reply(id), ref.FData); got != want {
				fail("post-lost", fmt.Sprintf("a post acknowledged while the board was being reloaded is not on the board a reader receives afterwards (%d bytes, want %d)", len(got), len(want)))
			}
			if disk, _ := os.ReadFile(filepath.Join(wd.ConfigDir, "MessageBoard.txt")); string(disk) != want {
				fail("file-differs-from-board", fmt.Sprintf("file has %d bytes, want %d", len(disk), len(want)))
			}
			obs = append(obs, "reload")
		case "delimiter":
			// the documented NewsDelimiter option replaces the line between two posts; the post keeps its header and text
			a, b := connect(1), connect(2)
			vrt.EndSetup()
			pid := a.Req(ref.TOldPostNews, ref.FS(ref.FData, "hello board"))
			vrt.Settle(10 * time.Second)
			want := strings.ReplaceAll(fmt.Sprintf("From %s (%s):\n\n%s\n\n", "n1", now.Format("Jan02 15:04"), "hello board")+delim+"\r", "\n", "\r")
			if r := a.Reply(pid); r == nil || r.Err != 0 {
				fail("post-refused", fmt.Sprint(r))
			}
			b.Poll()
			n := 0
			for _, t := range b.Inbox {
				if t.Type == ref.TNewMsg {
					n++
					if got := fieldStr(&t, ref.FData); got != want {
						fail("announced-post-not-in-post-format", fmt.Sprintf("delimiter %q: announced %q, want %q", delim, clip(got, 200), want))
					}
				}
			}
			if n != 1 {
				fail("user-not-notified-of-post", fmt.Sprintf("%d notices", n))
			}
			id := b.Req(ref.TGetMsgs)
			world.Quiet()
			if got := fieldStr(b.Reply(id), ref.FData); got != want+board0 {
				fail("post-not-kept-in-post-format", fmt.Sprintf("delimiter %q: board starts %q, want %q", delim, clip(got, 200), want))
			}
			if disk, _ := os.ReadFile(filepath.Join(wd.ConfigDir, "MessageBoard.txt")); string(disk) != want+board0 {
				fail("file-differs-from-board", fmt.Sprintf("delimiter %q: file starts %q", delim, clip(string(disk), 200)))
			}
			obs = append(obs, "delimiter")
		case "bigpost":
			// a post so large that its announcement (template + text) does not fit one 65,535-byte field: it is
			// announced whole or refused, and nobody's stream is damaged
			a, b := connect(1), connect(2)
			vrt.EndSetup()
			body := c19Text(p.Size, "P")
			pid := a.Req(ref.TOldPostNews, ref.FS(ref.FData, body))
			vrt.Settle(10 * time.Second)
			r := a.Reply(pid)
			for _, cl := range []*world.Client{a, b} {
				cl.Poll()
				if cl.ParseErr != nil || len(cl.Unparsed()) != 0 {
					fail("announcement-damages-the-stream", fmt.Sprintf("%s after a post of %d bytes: parse error %v, %d stray bytes, chunks %v", cl.Name, p.Size, cl.ParseErr, len(cl.Unparsed()), chunkSizes(cl.Conn)))
					continue
				}
				n := 0
				for _, t := range cl.Inbox {
					if t.Type == ref.TNewMsg {
						n++
						if got := fieldStr(&t, ref.FData); !strings.Contains(got, body) {
							fail("announcement-does-not-carry-the-post", fmt.Sprintf("%s was sent a new-post notice of %d bytes for a post of %d bytes", cl.Name, len(got), len(body)))
						}
					}
				}
				if r != nil && r.Err == 0 && n != 1 {
					fail("user-not-notified-of-post", fmt.Sprintf("%s received %d new-post notices for an acknowledged post of %d bytes", cl.Name, n, p.Size))
				}
				if (r == nil || r.Err != 0) && n != 0 {
					fail("refused-post-announced", fmt.Sprintf("%s received %d notices although the post was not acknowledged (%v)", cl.Name, n, r))
				}
			}
			obs = append(obs, fmt.Sprintf("acknowledged=%v", r != nil && r.Err == 0))
		case "post-fault":
			// a post whose disk write fails (the temporary file cannot be created) must not wedge the board:
			// later readers, posters and logins are still served
			a, b := connect(1), connect(2)
			tmp := filepath.Join(wd.ConfigDir, "MessageBoard.txt.tmp")
			boardFile := filepath.Join(wd.ConfigDir, "MessageBoard.txt")
			var saved []byte
			if p.Size%2 == 1 {
				// the other fault point: the temporary file can be written, moving it into place fails (a non-empty
				// directory sits at the board file's name)
				saved, _ = os.ReadFile(boardFile)
				_ = os.Remove(boardFile)
				_ = os.MkdirAll(filepath.Join(boardFile, "blocker"), 0755)
				tmp = boardFile
			} else {
				_ = os.MkdirAll(filepath.Join(tmp, "blocker"), 0755)
			}
			vrt.EndSetup()
			pid := a.Req(ref.TOldPostNews, ref.FS(ref.FData, "lost post"))
			vrt.Settle(5 * time.Second)
			if p.Size%2 == 1 {
				_ = os.RemoveAll(boardFile)
				_ = os.WriteFile(boardFile, saved, 0644)
				tmp = boardFile + ".tmp"
			}
			// "is on disk when acknowledged": a post whose write failed is not acknowledged as a success
			if r := a.Reply(pid); r != nil && r.Err == 0 {
				if raw, _ := os.ReadFile(filepath.Join(wd.ConfigDir, "MessageBoard.txt")); !strings.Contains(string(raw), "lost post") {
					fail("acknowledged-post-is-not-on-disk", fmt.Sprintf("the post was answered with a success reply while its disk write failed; the file holds %d bytes without it", len(raw)))
				}
			}
			_ = os.RemoveAll(tmp)
			id := b.Req(ref.TGetMsgs)
			vrt.Settle(5 * time.Second)
			if r := b.Reply(id); r == nil || r.Err != 0 {
				fail("board-wedged-after-failed-post", fmt.Sprintf("get-messages after a post whose disk write failed: %v; blocked: %v", r, vrt.Blocked()))
			} else if pr := a.Reply(pid); (pr == nil || pr.Err != 0) && strings.Contains(fieldStr(r, ref.FData), "lost post") {
				// the post was not acknowledged and nobody was told about it: it is not on the board either
				fail("unacknowledged-post-served-from-the-board", "a post whose disk write failed (no success reply, no announcement) is part of the board the next reader receives")
			}
			id2 := b.Req(ref.TOldPostNews, ref.FS(ref.FData, "next post"))
			vrt.Settle(5 * time.Second)
			if r := b.Reply(id2); r == nil || r.Err != 0 {
				fail("board-wedged-after-failed-post", fmt.Sprintf("a later post: %v", r))
			}
			l := wd.Dial("10.0.0.7:1007")
			l.Handshake()
			l.Login123("u", "pw", "l1", 1)
			vrt.Settle(5 * time.Second)
			l.Poll()
			shown := false
			for _, t := range l.Inbox {
				if t.Type == ref.TShowAgreement {
					shown = true
				}
			}
			if !shown {
				fail("agreement-not-shown-after-failed-post", fmt.Sprintf("blocked: %v", vrt.Blocked()))
			}
		case "logins", "reader+login":
			var rdr *world.Client
			var rid uint32
			if p.Scenario == "reader+login" {
				rdr = connect(1)
			}
			l1 := wd.Dial("10.0.0.7:1007")
			l2 := wd.Dial("10.0.0.8:1008")
			l1.Handshake()
			l2.Handshake()
			l1.Login123("u", "pw", "l1", 1)
			if p.Scenario == "logins" {
				l2.Login123("u", "pw", "l2", 1)
			} else {
				rid = rdr.Send(ref.Tx{Type: ref.TGetMsgs})
			}
			vrt.EndSetup()
			vrt.WaitQuiet()
			for _, l := range []*world.Client{l1, l2} {
				if l == l2 && p.Scenario != "logins" {
					continue
				}
				l.Poll()
				found := false
				for _, t := range l.Inbox {
					if t.Type == ref.TShowAgreement {
						found = true
						got := fieldStr(&t, ref.FData)
						if got != agreement {
							fail("agreement-not-served-whole", fmt.Sprintf("%s was shown %d bytes, the agreement has %d (common prefix %d)", l.Name, len(got), len(agreement), commonPrefix([]byte(got), []byte(agreement))))
						}
						obs = append(obs, fmt.Sprintf("%s=%v", l.Name, got == agreement))
					}
				}
				if !found {
					fail("agreement-not-shown", l.Name)
				}
			}
			if rdr != nil {
				r := rdr.Reply(rid)
				if r == nil || fieldStr(r, ref.FData) != board0 {
					fail("served-text-was-never-the-complete-board", fmt.Sprintf("reader received %d bytes, board has %d", len(fieldStr(r, ref.FData)), len(board0)))
				}
			}
		}
		for _, pn := range vrt.S.Panics() {
			fail("panic/"+vrt.PanicSite(pn), pn)
		}
		if wd := vrt.Wedged(); len(wd) > 0 {
			fail("deadlock", strings.Join(wd, ","))
		}
		out.Canon = strings.Join(obs, " ")
		return out
	}
}

func lens(ss []string) []int {
	var l []int
	for _, s := range ss {
		l = append(l, len(s))
	}
	return l
}

func runC19(w *explore.Worker) {
	bound := 2
	if w.Thorough {
		bound = 3
	}
	type job struct {
		p     c19Params
		bound int
	}
	var jobs []job
	for _, sz := range []int{60000, 65400, 65440, 65470, 65500} {
		jobs = append(jobs, job{c19Params{"bigpost", sz}, 0})
	}
	for _, sz := range []int{0, 1, 511, 512, 513, 2000, 40000, 65000} {
		jobs = append(jobs, job{c19Params{"sweep", sz}, 0})
	}
	jobs = append(jobs, job{c19Params{"reload+poster", 513}, 1})
	jobs = append(jobs, job{c19Params{"post-fault", 100}, 0}, job{c19Params{"post-fault", 101}, 0}, job{c19Params{"delimiter", 100}, 0}, job{c19Params{"delimiter", 101}, 0})
	if !w.Thorough {
		jobs = append(jobs, job{c19Params{"readers+poster", 40000}, 1}, job{c19Params{"logins", 40000}, 1})
	}
	sizes := []int{1, 513, 2000}
	if w.Thorough {
		sizes = []int{0, 1, 511, 512, 513, 2000, 40000}
	}
	for _, sz := range sizes {
		b := bound
		if sz >= 2000 || (!w.Thorough && sz != 513) {
			b = bound - 1
		}
		for _, sc := range []string{"readers+poster", "posters", "logins", "reader+login"} {
			bb := b
			if !w.Thorough && (sc == "posters" || sc == "reader+login") && bb > 1 {
				bb = 1
			}
			jobs = append(jobs, job{c19Params{sc, sz}, bb})
		}
	}
	maxB := 0
	for _, j := range jobs {
		cfg := explore.SchedConfig{Harness: "C19", Params: j.p.String(), Bound: j.bound, FreeCost: 1, MaxSteps: 50000, Suspend: true}
		explore.ExploreSchedules(w, cfg, c19Body(j.p))
		if j.bound > maxB {
			maxB = j.bound
		}
	}
	w.Max("deviation_bound_completed", maxB)
}

func replayC19(w *explore.Worker, raw json.RawMessage) {
	var r explore.SchedReplay
	if err := json.Unmarshal(raw, &r); err != nil {
		w.Broken("bad replay: %v", err)
		return
	}
	var p c19Params
	if err := json.Unmarshal([]byte(r.Params), &p); err != nil {
		w.Broken("bad replay params: %v", err)
		return
	}
	for i := 0; i < 2; i++ {
		_, out, err := explore.RunSchedule(r.Choices, 50000, c19Body(p))
		if err != nil {
			w.Broken("replay: %v", err)
			return
		}
		for _, v := range out.Violations {
			w.Violation(v.Signature, v.Detail, 0, r)
		}
	}
}
