// Package props holds one file per property: the harness, the enumeration and the oracle.
package props

import (
	"encoding/json"
	"sort"
	"time"

	"github.com/jhalter/mobius/verifh/explore"
)

type Prop struct {
	ID             string
	Level          string // evidence level: model_checking | fault_enumeration | exploration
	Rule           string
	Assumptions    []string
	Run            func(w *explore.Worker)
	Replay         func(w *explore.Worker, raw json.RawMessage)
	MinOutcomes    int
	MaxWorkers     int
	QuickBudget    time.Duration
	ThoroughBudget time.Duration
}

var registry = map[string]*Prop{}

func register(p *Prop) { registry[p.ID] = p }

func Lookup(id string) *Prop { return registry[id] }

func IDs() []string {
	var ids []string
	for id := range registry {
		ids = append(ids, id)
	}
	sort.Strings(ids)
	return ids
}
