package props

import (
	"encoding/binary"
	"encoding/json"
	"fmt"
	"os"
	"sort"
	"strconv"
	"strings"
	"time"

	"github.com/jhalter/mobius/hotline"
	"github.com/jhalter/mobius/verifh/explore"
	"github.com/jhalter/mobius/verifh/ref"
	"github.com/jhalter/mobius/verifh/vrt"
	"github.com/jhalter/mobius/verifh/world"
)

// C13: presence converges and user IDs address one live user.

func init() {
	register(&Prop{
		ID:    "C13",
		Level: "model_checking",
		Rule: "E-SEQ: breadth-first search over presence histories (connect 1.2.3/1.5 style, agree, set-user-info, privilege change, disconnect, private message, invitation, info request, kick) of 3 clients plus a probe, " +
			"each history replayed on a fresh real server; states deduplicated by a canonical snapshot (user list with ids ranked, per-slot status); the same histories shifted across the 65,536-connection boundary; " +
			"plus an E-SCHED harness for two simultaneous connects",
		Assumptions:    []string{"3 client slots + 1 probe; depth as reported; the re-ordering processOutbox allows is not explored for roster convergence (default schedule; the quantifier has no schedules)"},
		Run:            runC13,
		Replay:         replayC13,
		MinOutcomes:    20,
		QuickBudget:    150 * time.Second,
		ThoroughBudget: 25 * time.Minute,
	})
}

var c13Accounts = []world.Acct{
	{Login: "guest", Name: "Guest"},
	{Login: "probe", Name: "probe", Password: "pp", Access: world.Without(world.AllAccess, ref.PNoAgreement)},
	{Login: "admin", Name: "Admin", Password: "a", Access: world.Without(world.AllAccess, ref.PNoAgreement)},
	{Login: "user", Name: "User", Password: "u", Access: world.Bits(ref.PAnyName, ref.PSendPrivMsg, ref.POpenChat, ref.PGetClientInfo, ref.PReadChat, ref.PSendChat)},
	{Login: "plain", Name: "Plain", Password: "p", Access: world.Bits(ref.PSendPrivMsg, ref.POpenChat, ref.PGetClientInfo, ref.PReadChat)},
}

var c13SlotAcct = []string{"admin", "user", "plain"}
var c13SlotPw = []string{"a", "u", "p"}

type c13Slot struct {
	c        *world.Client
	status   int // 0 absent, 1 connected (1.5, not agreed), 2 complete
	id       uint16
	auto     string
	roster   map[uint16]ref.UserInfo
	folded   int // inbox entries already folded
	sessions int
}

type c13World struct {
	wd    *world.World
	probe *world.Client
	slots [3]*c13Slot
	viol  []explore.SchedV
}

func (x *c13World) fail(clause, detail string) {
	x.viol = append(x.viol, explore.SchedV{Signature: "C13/" + clause, Detail: detail})
}

func (x *c13World) list(c *world.Client) []ref.UserInfo { return x.wd.UserList(c) }

func (x *c13World) fold(s *c13Slot) {
	s.c.Poll()
	for ; s.folded < len(s.c.Inbox); s.folded++ {
		t := s.c.Inbox[s.folded]
		switch t.Type {
		case ref.TNotifyChangeUser:
			idb, _ := t.Get(ref.FUserID)
			if len(idb) != 2 {
				continue
			}
			u := ref.UserInfo{ID: uint16(idb[0])<<8 | uint16(idb[1])}
			if n, ok := t.Get(ref.FUserName); ok {
				u.Name = string(n)
			}
			if ic, ok := t.Get(ref.FUserIconID); ok { // an integer field of any width: its low-order 16 bits
				for _, b := range ic {
					u.Icon = u.Icon<<8 | uint16(b)
				}
			}
			if fl, ok := t.Get(ref.FUserFlags); ok && len(fl) >= 2 {
				u.Flags = uint16(fl[len(fl)-2])<<8 | uint16(fl[len(fl)-1])
			}
			s.roster[u.ID] = u
		case ref.TNotifyDeleteUser:
			idb, _ := t.Get(ref.FUserID)
			if len(idb) == 2 {
				delete(s.roster, uint16(idb[0])<<8|uint16(idb[1]))
			}
		}
	}
}

// baseRoster: the client fetches the list once, when its login is complete.
func (x *c13World) baseRoster(s *c13Slot) {
	s.roster = map[uint16]ref.UserInfo{}
	for _, u := range x.list(s.c) {
		s.roster[u.ID] = u
	}
	s.c.Poll()
	s.folded = len(s.c.Inbox)
}

func (x *c13World) completeIDs() map[uint16]bool {
	m := map[uint16]bool{}
	for _, s := range x.slots {
		if s.status == 2 {
			m[s.id] = true
		}
	}
	return m
}

func rosterString(m map[uint16]ref.UserInfo, only map[uint16]bool) string {
	var ids []int
	for id := range m {
		if only == nil || only[id] {
			ids = append(ids, int(id))
		}
	}
	sort.Ints(ids)
	var sb strings.Builder
	for _, id := range ids {
		u := m[uint16(id)]
		fmt.Fprintf(&sb, "[%d %q icon=%d flags=%d]", u.ID, u.Name, u.Icon, u.Flags)
	}
	return sb.String()
}

// newID finds the id the server gave to the connection that was just opened (the id present in
// the server's client table now and not before).
func (x *c13World) newID(before []ref.UserInfo) (uint16, bool) {
	old := map[uint16]int{}
	for _, u := range before {
		old[u.ID]++
	}
	for _, u := range x.registered() {
		if old[u.ID] == 0 {
			return u.ID, true
		}
		old[u.ID]--
	}
	return 0, false
}

// registered: the ids in the server's client table (a user who has not agreed yet is registered, but not part of the
// user list clients are sent).
func (x *c13World) registered() []ref.UserInfo {
	var out []ref.UserInfo
	for _, c := range x.wd.Srv.ClientMgr.List() {
		out = append(out, ref.UserInfo{ID: binary.BigEndian.Uint16(c.ID[:])})
	}
	return out
}

func (x *c13World) apply(op string, last bool) (enabled bool) {
	parts := strings.Split(op, ":")
	k, _ := strconv.Atoi(parts[1])
	s := x.slots[k]
	arg := 0
	if len(parts) > 2 {
		arg, _ = strconv.Atoi(parts[2])
	}
	settle := func() { world.Quiet() }
	switch parts[0] {
	case "c123", "c15":
		if s.status != 0 {
			return false
		}
		before := x.registered()
		s.sessions++
		s.c = x.wd.Dial(fmt.Sprintf("10.0.%d.%d:%d", s.sessions, k+1, 2000+k))
		s.c.Handshake()
		if parts[0] == "c123" {
			s.c.Login123(c13SlotAcct[k], c13SlotPw[k], fmt.Sprintf("n%d", k), uint16(10+k))
			settle()
			s.status = 2
		} else {
			s.c.Login15(c13SlotAcct[k], c13SlotPw[k])
			settle()
			s.status = 1
		}
		var found bool
		s.id, found = x.newID(before)
		s.auto = ""
		if !found {
			x.fail("ids/new-connection-got-an-id-already-in-use", fmt.Sprintf("after %s the user list shows no new id, i.e. the new connection was given an id a connected user already holds (or is not listed): before %v after %v", op, before, x.registered()))
		}
		if s.status == 2 {
			x.baseRoster(s)
		}
	case "agree":
		if s.status != 1 {
			return false
		}
		fields := []ref.Fld{ref.FS(ref.FUserName, fmt.Sprintf("a%d", k)), ref.F16(ref.FUserIconID, uint16(20+k)), ref.F16(ref.FOptions, uint16(arg))}
		if arg == 8 { // a client that sends no icon field at all (arg 8 = no options either)
			fields = []ref.Fld{ref.FS(ref.FUserName, fmt.Sprintf("a%d", k)), ref.F16(ref.FOptions, 0)}
		}
		if arg == 9 { // a one-byte icon field
			fields = []ref.Fld{ref.FS(ref.FUserName, fmt.Sprintf("a%d", k)), ref.F(ref.FUserIconID, []byte{9}), ref.F16(ref.FOptions, 0)}
		}
		if arg&4 != 0 && arg < 8 {
			fields = append(fields, ref.FS(ref.FAutoResponse, "gone"))
			s.auto = "gone"
		}
		if arg == 10 { // a user who agrees with an empty name: it has completed login like everybody else
			fields = []ref.Fld{ref.FS(ref.FUserName, ""), ref.F16(ref.FUserIconID, uint16(20+k)), ref.F16(ref.FOptions, 0)}
		}
		s.c.Req(ref.TAgreed, fields...)
		settle()
		s.status = 2
		x.baseRoster(s)
	case "info":
		if s.status == 1 && arg == 0 {
			// a client that sets its name and icon before it has agreed: nobody is told (it is not on any list yet), the
			// name it agrees with later is what counts
			s.c.Req(ref.TSetClientUserInfo, ref.FS(ref.FUserName, fmt.Sprintf("early%d", k)), ref.F16(ref.FUserIconID, uint16(40+k)))
			settle()
			break
		}
		if s.status != 2 {
			return false
		}
		fields := []ref.Fld{ref.FS(ref.FUserName, fmt.Sprintf("i%d", k)), ref.F16(ref.FUserIconID, uint16(30+k))}
		switch arg {
		case 1:
			fields = append(fields, ref.F16(ref.FOptions, 1))
			s.auto = ""
		case 2:
			fields = append(fields, ref.F16(ref.FOptions, 4), ref.FS(ref.FAutoResponse, "away"))
			s.auto = "away"
		case 3:
			fields = append(fields, ref.F16(ref.FOptions, 0))
			s.auto = ""
		case 4: // an any-name user who chooses the empty nickname
			fields = []ref.Fld{ref.FS(ref.FUserName, ""), ref.F16(ref.FUserIconID, uint16(30+k))}
		}
		s.c.Req(ref.TSetClientUserInfo, fields...)
		settle()
	case "priv":
		adm := x.slots[0]
		if adm.status != 2 || k == 0 {
			return false
		}
		// toggle the disconnect-users privilege of slot k's account
		acc := x.wd.Srv.AccountManager.Get(c13SlotAcct[k])
		if acc == nil {
			return false
		}
		nb := [8]byte(acc.Access)
		nb[ref.PDisconUser/8] ^= 0x80 >> uint(ref.PDisconUser%8)
		adm.c.Req(ref.TSetUser, ref.F(ref.FUserLogin, obf(c13SlotAcct[k])), ref.FS(ref.FUserName, acc.Name), ref.F(ref.FUserPassword, []byte{0}), ref.F(ref.FUserAccess, nb[:]))
		settle()
	case "bye":
		if s.status == 0 {
			return false
		}
		s.c.Hangup()
		settle()
		s.status = 0
	case "stale":
		// a request addressed to an id nobody holds any more (the user just left): it reaches nobody, and the
		// requester in particular stays connected and keeps being served
		snd := x.slots[k]
		if snd.status != 2 {
			return false
		}
		var conns []*world.Client
		for _, s := range x.slots {
			if s.status != 0 {
				conns = append(conns, s.c)
			}
		}
		typ := map[int]uint16{0: ref.TDisconnectUser, 1: ref.TInviteNewChat, 2: ref.TSendInstantMsg, 3: ref.TGetClientInfoText}[arg]
		fields := []ref.Fld{ref.F16(ref.FUserID, 0x7777)}
		if typ == ref.TSendInstantMsg {
			fields = append(fields, ref.FS(ref.FData, "psst"), ref.F16(ref.FOptions, 1))
		}
		snd.c.Req(typ, fields...)
		world.Settle(5 * time.Second)
		for _, c := range conns {
			if c.Conn.Closed {
				x.fail("targeted/request-to-a-vacant-id-closed-a-connection", fmt.Sprintf("%s (request type %d to id 0x7777 by slot %d)", c.Name, typ, k))
			}
		}
		pid := snd.c.Req(ref.TGetUserNameList)
		settle()
		if snd.c.Reply(pid) == nil {
			x.fail("targeted/requester-not-served-after-request-to-a-vacant-id", fmt.Sprintf("request type %d", typ))
		}
	case "pm", "inv", "ginfo", "kick":
		j := k
		t := x.slots[arg]
		snd := x.slots[j]
		if snd.status != 2 || t.status != 2 || j == arg {
			return false
		}
		x.targeted(parts[0], j, arg, last)
	default:
		panic("unknown op " + op)
	}
	return true
}

// targeted: a request addressed to the id of slot k must reach only the user holding that id.
func (x *c13World) targeted(kind string, j, k int, check bool) {
	snd, tgt := x.slots[j], x.slots[k]
	all := []*world.Client{x.probe}
	for _, s := range x.slots {
		if s.status != 0 {
			all = append(all, s.c)
		}
	}
	// server-reported flags of the target
	var tflags uint16
	for _, u := range x.list(x.probe) {
		if u.ID == tgt.id {
			tflags = u.Flags
		}
	}
	for _, c := range all {
		c.Poll()
	}
	mark := map[*world.Client]int{}
	for _, c := range all {
		mark[c] = len(c.Inbox)
	}
	var id uint32
	switch kind {
	case "pm":
		id = snd.c.Req(ref.TSendInstantMsg, ref.F16(ref.FUserID, tgt.id), ref.FS(ref.FData, "psst"), ref.F16(ref.FOptions, 1))
	case "inv":
		id = snd.c.Req(ref.TInviteNewChat, ref.F16(ref.FUserID, tgt.id))
	case "ginfo":
		id = snd.c.Req(ref.TGetClientInfoText, ref.F16(ref.FUserID, tgt.id))
	case "kick":
		id = snd.c.Req(ref.TDisconnectUser, ref.F16(ref.FUserID, tgt.id))
	}
	if kind == "kick" {
		world.Settle(5 * time.Second)
	} else {
		world.Quiet()
	}
	got := map[*world.Client][]ref.Tx{}
	for _, c := range all {
		c.Poll()
		got[c] = c.Inbox[mark[c]:]
	}
	if kind == "kick" {
		canKick := world.Has([8]byte(x.wd.Srv.AccountManager.Get(c13SlotAcct[j]).Access), ref.PDisconUser)
		protected := world.Has([8]byte(x.wd.Srv.AccountManager.Get(c13SlotAcct[k]).Access), ref.PCannotBeDiscon)
		if canKick && !protected {
			if !tgt.c.Conn.Closed {
				x.fail("targeted/kick-did-not-close-the-holder", fmt.Sprintf("kick of id %d: connection of slot %d still open", tgt.id, k))
			}
			tgt.status = 0
		}
		for _, s := range x.slots {
			if s != tgt && s.status != 0 && s.c.Conn.Closed {
				x.fail("targeted/kick-closed-another-user", fmt.Sprintf("kick of id %d closed the connection of id %d", tgt.id, s.id))
			}
		}
		return
	}
	if !check {
		return
	}
	r := snd.c.Reply(id)
	sndAcc := [8]byte(x.wd.Srv.AccountManager.Get(c13SlotAcct[j]).Access)
	count := func(c *world.Client, typ uint16) (n int, first ref.Tx) {
		for _, t := range got[c] {
			if t.Type == typ && t.IsReply == 0 {
				if n == 0 {
					first = t
				}
				n++
			}
		}
		return
	}
	switch kind {
	case "pm":
		if !world.Has(sndAcc, ref.PSendPrivMsg) {
			return
		}
		for _, c := range all {
			n, _ := count(c, ref.TServerMsg)
			want := 0
			refuse := tflags&4 != 0
			if c == tgt.c && !refuse {
				want = 1
			}
			if c == snd.c {
				if refuse {
					want++
				}
				if tgt.auto != "" {
					want++
				}
			}
			if c == snd.c && c == tgt.c {
				continue
			}
			if n != want {
				x.fail("targeted/private-message-delivery", fmt.Sprintf("pm from id %d to id %d (target flags %d, auto %q): client %s received %d server messages, want %d: %v", snd.id, tgt.id, tflags, tgt.auto, c.Name, n, want, got[c]))
			}
		}
		if n, m := count(tgt.c, ref.TServerMsg); n == 1 && tflags&4 == 0 {
			if d, _ := m.Get(ref.FData); string(d) != "psst" {
				x.fail("targeted/private-message-text", fmt.Sprintf("target received %q", d))
			}
			if d, _ := m.Get(ref.FUserID); len(d) != 2 || uint16(d[0])<<8|uint16(d[1]) != snd.id {
				x.fail("targeted/private-message-sender-id", fmt.Sprintf("target sees sender id %x, sender holds %d", d, snd.id))
			}
		}
		if r == nil {
			x.fail("targeted/private-message-unanswered", "")
		}
	case "inv":
		if !world.Has(sndAcc, ref.POpenChat) {
			return
		}
		for _, c := range all {
			n, _ := count(c, ref.TInviteToChat)
			want := 0
			if c == tgt.c && tflags&8 == 0 {
				want = 1
			}
			if n != want {
				x.fail("targeted/invitation-delivery", fmt.Sprintf("invite from id %d to id %d (target flags %d): client %s received %d invitations, want %d", snd.id, tgt.id, tflags, c.Name, n, want))
			}
		}
	case "ginfo":
		if !world.Has(sndAcc, ref.PGetClientInfo) {
			return
		}
		if r == nil || r.Err != 0 {
			x.fail("targeted/get-info-failed", fmt.Sprint(r))
			return
		}
		text := fieldStr(r, ref.FData)
		if !strings.Contains(text, "Account:    "+c13SlotAcct[k]) {
			x.fail("targeted/get-info-describes-another-user", fmt.Sprintf("info for id %d (account %s): %q", tgt.id, c13SlotAcct[k], text))
		}
	}
}

func (x *c13World) check() string {
	// (a) ids pairwise distinct
	fresh := x.list(x.probe)
	seen := map[uint16]int{}
	for _, u := range fresh {
		seen[u.ID]++
	}
	for id, n := range seen {
		if n > 1 {
			x.fail("ids/two-connected-users-share-an-id", fmt.Sprintf("id %d appears %d times in the user list %v", id, n, fresh))
		}
	}
	held := map[uint16]int{1: 1} // the probe
	_ = held
	ids := map[uint16][]string{}
	ids[x.probeID()] = append(ids[x.probeID()], "probe")
	for k, s := range x.slots {
		if s.status != 0 {
			ids[s.id] = append(ids[s.id], fmt.Sprintf("slot%d", k))
		}
	}
	for id, who := range ids {
		if len(who) > 1 {
			x.fail("ids/two-connected-users-share-an-id", fmt.Sprintf("id %d is held by %v", id, who))
		}
	}
	// (b) folded roster = fresh list, for every client that completed login
	complete := x.completeIDs()
	complete[x.probeID()] = true
	for k, s := range x.slots {
		if s.status != 2 {
			continue
		}
		x.fold(s)
		fl := map[uint16]ref.UserInfo{}
		for _, u := range x.list(s.c) {
			fl[u.ID] = u
		}
		s.c.Poll()
		s.folded = len(s.c.Inbox)
		// "exactly the server's current list of users who have completed login": nobody else is in either
		a, b := rosterString(s.roster, nil), rosterString(fl, nil)
		for id := range fl {
			if !complete[id] {
				x.fail("roster/user-list-shows-a-user-who-has-not-completed-login", fmt.Sprintf("slot %d is sent a user list with id %d, which has logged in but not agreed yet and was never announced: %s", k, id, b))
			}
		}
		if a != b {
			x.fail("roster/folded-roster-differs-from-fresh-list", fmt.Sprintf("slot %d (id %d): folded %s fresh %s", k, s.id, a, b))
		}
	}
	// canonical state: fresh list with ids ranked, slot statuses
	rank := map[uint16]int{}
	var sorted []int
	for _, u := range fresh {
		sorted = append(sorted, int(u.ID))
	}
	sort.Ints(sorted)
	for i, id := range sorted {
		rank[uint16(id)] = i
	}
	var sb strings.Builder
	for _, u := range fresh {
		fmt.Fprintf(&sb, "[%d %q %d %d]", rank[u.ID], u.Name, u.Icon, u.Flags)
	}
	for k, s := range x.slots {
		r := -1
		if s.status != 0 {
			r = rank[s.id]
		}
		fmt.Fprintf(&sb, " s%d:%d/%d/%q", k, s.status, r, s.auto)
		// the implementation's own per-connection state is part of the state (for deduplication only, no oracle
		// looks at it): if it diverges from the model the state must be expanded, not merged
		if s.status != 0 {
			if cc := x.wd.Srv.ClientMgr.Get([2]byte{byte(s.id >> 8), byte(s.id)}); cc != nil {
				fmt.Fprintf(&sb, "/impl:%q/%x", cc.AutoReply, cc.Flags[:])
			}
		}
	}
	for _, a := range c13SlotAcct[1:] {
		acc := x.wd.Srv.AccountManager.Get(a)
		fmt.Fprintf(&sb, " %s:%v", a, world.Has([8]byte(acc.Access), ref.PDisconUser))
	}
	return sb.String()
}

func (x *c13World) probeID() uint16 {
	for _, u := range x.list(x.probe) {
		if u.Name == "probe" {
			return u.ID
		}
	}
	return 0
}

// c13Exec replays hist on a fresh world; shift>0 places the history `shift` connections before the
// 16-bit id counter wraps (the probe stays connected from the start).
func c13Exec(shift int) func(hist []string) explore.SeqResult {
	return func(hist []string) (res explore.SeqResult) {
		s := seq(func() {
			wd := world.New(world.Cfg{Accounts: c13Accounts, Agreement: "agree?"})
			defer wd.Close()
			x := &c13World{wd: wd}
			for i := range x.slots {
				x.slots[i] = &c13Slot{}
			}
			var r *ref.Tx
			x.probe, r = wd.Connect("10.9.9.9:999", "probe", "pp", "probe")
			if r == nil || r.Err != 0 {
				res.Violations = append(res.Violations, explore.SchedV{Signature: "C13/setup", Detail: "probe login failed"})
				return
			}
			if shift >= 0 {
				// burn connection ids: 65535-shift-1 register/unregister cycles
				vrt.Unmanaged(func() {
					cc := &hotline.ClientConn{}
					for i := 0; i < 65535-shift-1; i++ {
						wd.Srv.ClientMgr.Add(cc)
						wd.Srv.ClientMgr.Delete(cc.ID)
					}
				})
			}
			for i, op := range hist {
				if !x.apply(op, i == len(hist)-1) {
					res.Skip = true
					return
				}
			}
			res.Canon = x.check()
			res.Violations = append(res.Violations, x.viol...)
		})
		for _, p := range s.Panics() {
			res.Violations = append(res.Violations, explore.SchedV{Signature: "C13/panic/" + vrt.PanicSite(p), Detail: p})
		}
		return res
	}
}

func c13Alphabet() []string {
	a := []string{"c123:0", "c123:1", "c123:2", "c15:1", "c15:2", "agree:1:0", "agree:1:5", "agree:2:0", "agree:2:6", "agree:1:8", "agree:2:9", "agree:1:10",
		"info:0:0", "info:1:0", "info:1:1", "info:1:2", "info:2:2", "info:1:3", "info:1:4", "priv:1", "priv:2", "bye:0", "bye:1", "bye:2",
		"pm:0:1", "pm:1:0", "pm:1:2", "pm:2:1", "pm:0:2", "pm:2:0", "inv:0:1", "inv:1:2", "ginfo:0:1", "ginfo:1:2", "kick:0:1", "kick:0:2", "stale:0:0", "stale:1:1", "stale:1:2", "stale:0:3"}
	return a
}

// c13Concurrent: two connections registering at the same time must get different ids (E-SCHED).
func c13Concurrent() explore.SchedOutcome {
	var out explore.SchedOutcome
	vrt.BeginSetup()
	wd := world.New(world.Cfg{Accounts: c13Accounts, Agreement: "agree?"})
	defer wd.Close()
	probe, r := wd.Connect("10.9.9.9:999", "probe", "pp", "probe")
	if r == nil {
		out.Violations = append(out.Violations, explore.SchedV{Signature: "C13/setup", Detail: "probe login failed"})
		return out
	}
	a := wd.Dial("10.0.0.1:1")
	b := wd.Dial("10.0.0.2:2")
	a.Handshake()
	b.Handshake()
	a.Login123("user", "u", "na", 1)
	b.Login123("admin", "a", "nb", 2)
	vrt.EndSetup()
	vrt.WaitQuiet()
	list := wd.UserList(probe)
	seen := map[uint16]bool{}
	names := map[string]bool{}
	for _, u := range list {
		if seen[u.ID] {
			out.Violations = append(out.Violations, explore.SchedV{Signature: "C13/concurrent/two-connected-users-share-an-id", Detail: fmt.Sprint(list)})
		}
		seen[u.ID] = true
		names[u.Name] = true
	}
	if !names["na"] || !names["nb"] || len(list) != 3 {
		out.Violations = append(out.Violations, explore.SchedV{Signature: "C13/concurrent/connected-user-missing-from-list", Detail: fmt.Sprint(list)})
	}
	for _, p := range vrt.S.Panics() {
		out.Violations = append(out.Violations, explore.SchedV{Signature: "C13/concurrent/panic/" + vrt.PanicSite(p), Detail: p})
	}
	out.Canon = fmt.Sprint(list)
	return out
}

// c13LeaveJoin: one user leaves while another logs in and fetches the user list (E-SCHED): whatever
// the interleaving, the newcomer's roster (fetched list + notifications) must end up equal to a fresh list.
func c13LeaveJoin() (out explore.SchedOutcome) {
	vrt.BeginSetup()
	wd := world.New(world.Cfg{Accounts: c13Accounts, Agreement: "agree?"})
	defer wd.Close()
	probe, r := wd.Connect("10.9.9.9:999", "probe", "pp", "probe")
	b, rb := wd.Connect("10.0.0.2:2", "user", "u", "leaver")
	if r == nil || rb == nil {
		out.Violations = append(out.Violations, explore.SchedV{Signature: "C13/setup", Detail: "logins failed"})
		return out
	}
	c := wd.Dial("10.0.0.3:3")
	c.Handshake()
	c.Login123("admin", "a", "joiner", 3)
	lid := c.Send(ref.Tx{Type: ref.TGetUserNameList})
	b.Hangup()
	vrt.EndSetup()
	vrt.WaitQuiet()
	c.Poll()
	roster := map[uint16]ref.UserInfo{}
	seenList := false
	for _, t := range c.Inbox {
		switch {
		case t.IsReply == 1 && t.ID == lid:
			seenList = true
			roster = map[uint16]ref.UserInfo{}
			for _, d := range t.GetAll(ref.FUserNameWithInfo) {
				if u, err := ref.DecodeUserInfo(d); err == nil {
					roster[u.ID] = u
				}
			}
		case t.Type == ref.TNotifyDeleteUser && seenList:
			if d, _ := t.Get(ref.FUserID); len(d) == 2 {
				delete(roster, uint16(d[0])<<8|uint16(d[1]))
			}
		case t.Type == ref.TNotifyChangeUser && seenList:
			if d, _ := t.Get(ref.FUserID); len(d) == 2 {
				u := ref.UserInfo{ID: uint16(d[0])<<8 | uint16(d[1]), Name: fieldStr(&t, ref.FUserName)}
				roster[u.ID] = u
			}
		}
	}
	// notifications that overtook the list reply on the wire are applied too (a client buffers them): apply all deletes
	for _, t := range c.Inbox {
		if t.Type == ref.TNotifyDeleteUser {
			if d, _ := t.Get(ref.FUserID); len(d) == 2 {
				delete(roster, uint16(d[0])<<8|uint16(d[1]))
			}
		}
	}
	fresh := map[uint16]bool{}
	for _, u := range wd.UserList(probe) {
		fresh[u.ID] = true
	}
	var stale []string
	for id, u := range roster {
		if !fresh[id] {
			stale = append(stale, fmt.Sprintf("%d/%s", id, u.Name))
		}
	}
	if !seenList {
		out.Violations = append(out.Violations, explore.SchedV{Signature: "C13/leave-join/list-request-unanswered", Detail: fmt.Sprint(c.Inbox)})
	} else if len(stale) > 0 {
		out.Violations = append(out.Violations, explore.SchedV{Signature: "C13/leave-join/newcomer-keeps-a-user-who-left",
			Detail: fmt.Sprintf("the newcomer's roster still holds %v, the server's list is %v; it received %v", stale, fresh, c.Inbox)})
	}
	for _, p := range vrt.S.Panics() {
		out.Violations = append(out.Violations, explore.SchedV{Signature: "C13/leave-join/panic/" + vrt.PanicSite(p), Detail: p})
	}
	out.Canon = fmt.Sprintf("%d %v", len(roster), stale)
	return out
}

// c13Order (E-SCHED): one user changes its name twice in a row, then leaves; an observer that applies the
// notifications in the order it receives them must end up with the server's list - i.e. notices about
// one user reach each recipient in the order they were issued.
func c13Order(leave bool) func() explore.SchedOutcome { return c13OrderMode(leave, false) }

// c13OrderMode with edit: instead of renaming itself, the user's account is edited by an administrator (a privilege
// change is announced to everybody for each session of the account) while the user hangs up.
func c13OrderMode(leave, edit bool) func() explore.SchedOutcome {
	return func() (out explore.SchedOutcome) {
		vrt.BeginSetup()
		wd := world.New(world.Cfg{Accounts: c13Accounts, Agreement: "agree?"})
		defer wd.Close()
		probe, r := wd.Connect("10.9.9.9:999", "probe", "pp", "probe")
		var adm *world.Client
		if edit {
			// the administrator connects first: the default schedule then carries out the whole edit before the user
			// leaves, and one deviation (the edit held up after it has looked up the account's sessions) reaches the window
			adm, _ = wd.Connect("10.0.0.3:3", "admin", "a", "adm")
		}
		x, rx := wd.Connect("10.0.0.2:2", "user", "u", "start")
		if r == nil || rx == nil || r.Err != 0 || rx.Err != 0 {
			out.Violations = append(out.Violations, explore.SchedV{Signature: "C13/setup", Detail: "logins failed"})
			return out
		}
		roster := map[uint16]ref.UserInfo{}
		for _, u := range wd.UserList(probe) {
			roster[u.ID] = u
		}
		probe.New()
		if edit {
			acc := world.Bits(ref.PAnyName, ref.PSendPrivMsg, ref.POpenChat, ref.PGetClientInfo, ref.PReadChat, ref.PSendChat, ref.PDisconUser)
			adm.Send(ref.Tx{Type: ref.TSetUser, Fields: []ref.Fld{ref.F(ref.FUserLogin, ref.Obfuscate([]byte("user"))), ref.FS(ref.FUserName, "User"), ref.F(ref.FUserPassword, []byte{0}), ref.F(ref.FUserAccess, acc[:])}})
		} else {
			x.Send(ref.Tx{Type: ref.TSetClientUserInfo, Fields: []ref.Fld{ref.FS(ref.FUserName, "first"), ref.F16(ref.FUserIconID, 5)}})
			x.Send(ref.Tx{Type: ref.TSetClientUserInfo, Fields: []ref.Fld{ref.FS(ref.FUserName, "second"), ref.F16(ref.FUserIconID, 6)}})
		}
		if leave {
			x.Hangup()
		}
		vrt.EndSetup()
		vrt.WaitQuiet()
		for _, t := range probe.New() {
			switch t.Type {
			case ref.TNotifyChangeUser:
				if d, _ := t.Get(ref.FUserID); len(d) == 2 {
					u := ref.UserInfo{ID: uint16(d[0])<<8 | uint16(d[1]), Name: fieldStr(&t, ref.FUserName)}
					if ic, ok := t.Get(ref.FUserIconID); ok {
						for _, b := range ic {
							u.Icon = u.Icon<<8 | uint16(b)
						}
					}
					if old, ok := roster[u.ID]; ok {
						u.Flags = old.Flags
					}
					roster[u.ID] = u
				}
			case ref.TNotifyDeleteUser:
				if d, _ := t.Get(ref.FUserID); len(d) == 2 {
					delete(roster, uint16(d[0])<<8|uint16(d[1]))
				}
			}
		}
		var folded, fresh []string
		for _, u := range roster {
			folded = append(folded, fmt.Sprintf("%d/%s/%d", u.ID, u.Name, u.Icon))
		}
		for _, u := range wd.UserList(probe) {
			fresh = append(fresh, fmt.Sprintf("%d/%s/%d", u.ID, u.Name, u.Icon))
		}
		sort.Strings(folded)
		sort.Strings(fresh)
		if strings.Join(folded, ",") != strings.Join(fresh, ",") {
			sig, what := "C13/order/folded-roster-differs-from-fresh-list", "a user renamed itself 'first', then 'second'"
			if edit {
				sig, what = "C13/order/user-announced-after-it-left", "an administrator edits the account of a user who hangs up at the same moment"
			}
			out.Violations = append(out.Violations, explore.SchedV{Signature: sig, Detail: fmt.Sprintf("%s (leave=%v): the observer applying its notifications in arrival order holds %v, the server lists %v", what, leave, folded, fresh)})
		}
		for _, pn := range vrt.S.Panics() {
			out.Violations = append(out.Violations, explore.SchedV{Signature: "C13/order/panic/" + vrt.PanicSite(pn), Detail: pn})
		}
		out.Canon = strings.Join(folded, ",")
		return out
	}
}

// c13Full: all 65,535 ids are held by connected users and one more connection registers: the
// registration returns, and no two registered users share an id (the extra one cannot get one).
func c13Full(w *explore.Worker) {
	w.Eval()
	mgr := hotline.NewMemClientMgr()
	for i := 0; i < 65535; i++ {
		mgr.Add(&hotline.ClientConn{})
	}
	extra := &hotline.ClientConn{}
	done := make(chan struct{})
	go func() { mgr.Add(extra); close(done) }()
	replay := explore.SeqReplay{Kind: "history", Harness: "C13full", History: []string{"65535 connections stay", "one more registers"}}
	select {
	case <-done:
	case <-time.After(60 * time.Second): // generous: the registration scans at most 65,536 ids
		w.Violation("C13/ids/registration-never-returns-when-all-ids-are-in-use", "with 65,535 users connected, registering one more connection did not return within 60 s (it holds the client table's lock: the whole server is wedged)", 1, replay)
		// the registering goroutine keeps spinning inside instrumented code: this worker cannot go on
		w.Cap("a worker was ended after the full-table scenario hung; the rest of its share was not explored")
		if p := os.Getenv("VERIF_WORKER_OUT"); p != "" {
			_ = w.WriteResult(p)
			os.Exit(0)
		}
		return
	}
	seen := map[[2]byte]int{}
	for _, c := range mgr.List() {
		seen[c.ID]++
	}
	for id, n := range seen {
		if n > 1 || id == [2]byte{} {
			w.Violation("C13/ids/new-connection-got-an-id-already-in-use", fmt.Sprintf("with all ids in use: id %x is held by %d registered connections", id, n), 1, replay)
			return
		}
	}
	w.Outcome(fmt.Sprintf("full table: extra id %x, %d registered", extra.ID, len(seen)))
}

func runC13(w *explore.Worker) {
	if w.Mine(3) {
		c13Full(w)
	}
	explore.ExploreSchedules(w, explore.SchedConfig{Harness: "C13leavejoin", Params: "", Bound: map[bool]int{false: 1, true: 2}[w.Thorough], FreeCost: 1, MaxSteps: 20000, Suspend: true}, c13LeaveJoin)
	depth := 5
	wrapDepth := 2
	if w.Thorough {
		depth, wrapDepth = 6, 3
	}
	explore.ExploreHistories(w, explore.SeqConfig{Name: "C13presence", Params: "-1", Alphabet: c13Alphabet(), Depth: depth, Exec: c13Exec(-1)})
	for _, shift := range []int{0, 1, 2, 3} {
		explore.ExploreHistories(w, explore.SeqConfig{Name: "C13wrap", Params: fmt.Sprint(shift), Alphabet: c13Alphabet(), Depth: wrapDepth, Exec: c13Exec(shift)})
	}
	bound := 1
	if w.Thorough {
		bound = 2
	}
	explore.ExploreSchedules(w, explore.SchedConfig{Harness: "C13concurrent", Params: "", Bound: bound, FreeCost: 1, MaxSteps: 20000, Suspend: true}, c13Concurrent)
	for _, leave := range []bool{false, true} {
		explore.ExploreSchedules(w, explore.SchedConfig{Harness: "C13order", Params: fmt.Sprint(leave), Bound: bound, FreeCost: 1, MaxSteps: 20000, Suspend: true}, c13Order(leave))
	}
	explore.ExploreSchedules(w, explore.SchedConfig{Harness: "C13order", Params: "edit", Bound: bound, FreeCost: 1, MaxSteps: 20000, Suspend: true}, c13OrderMode(true, true))
}

func replayC13(w *explore.Worker, raw json.RawMessage) {
	var fr explore.SeqReplay
	if json.Unmarshal(raw, &fr) == nil && fr.Harness == "C13full" {
		c13Full(w)
		return
	}
	var sr explore.SchedReplay
	if json.Unmarshal(raw, &sr) == nil && sr.Kind == "schedule" {
		body := c13Concurrent
		if sr.Harness == "C13leavejoin" {
			body = c13LeaveJoin
		}
		if sr.Harness == "C13order" {
			body = c13Order(sr.Params == "true")
			if sr.Params == "edit" {
				body = c13OrderMode(true, true)
			}
		}
		_, out, err := explore.RunSchedule(sr.Choices, 20000, body)
		if err != nil {
			w.Broken("replay: %v", err)
		}
		for _, v := range out.Violations {
			w.Violation(v.Signature, v.Detail, 0, sr)
		}
		return
	}
	var r explore.SeqReplay
	if err := json.Unmarshal(raw, &r); err != nil {
		w.Broken("bad replay: %v", err)
		return
	}
	shift, _ := strconv.Atoi(r.Params)
	res := c13Exec(shift)(r.History)
	for _, v := range res.Violations {
		w.Violation(v.Signature, v.Detail, 0, r)
	}
}
