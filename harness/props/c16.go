package props

import (
	"encoding/json"
	"fmt"
	"os"
	"path/filepath"
	"sort"
	"strings"
	"time"

	"gopkg.in/yaml.v3"

	"github.com/jhalter/mobius/hotline"
	"github.com/jhalter/mobius/internal/mobius"
	"github.com/jhalter/mobius/verifh/explore"
	"github.com/jhalter/mobius/verifh/ref"
	"github.com/jhalter/mobius/verifh/world"
)

// C16: a privilege bit means the same on the wire, in memory and on disk.

func init() {
	register(&Prop{
		ID:    "C16",
		Level: "exploration",
		Rule: "bounded-exhaustive input enumeration: every bitmap with 0,1,2 (thorough: 3) of the 40 defined bits, the all-40 bitmap and each undefined bit alone, " +
			"through 4 paths (yaml marshal/unmarshal, legacy array load, account manager create+fresh load incl. migration, login access field + one governed request per bit); " +
			"distinct = distinct (bitmap, path) observations",
		Assumptions: []string{"bit/key table in ref/priv.go written from the protocol document", "subsets of more than 3 defined bits other than the full set are outside the bound"},
		Run:            runC16,
		Replay:         replayC16,
		MinOutcomes:    10,
		QuickBudget:    90 * time.Second,
		ThoroughBudget: 20 * time.Minute,
	})
}

type c16Case struct {
	Bits [8]byte `json:"bits"`
	Path string  `json:"path"`
}

func c16Bitmaps(thorough bool) [][8]byte {
	var defined []int
	for _, p := range ref.Privs {
		defined = append(defined, p.Bit)
	}
	var out [][8]byte
	out = append(out, [8]byte{})
	for _, i := range defined {
		out = append(out, setBits(i))
	}
	for x := 0; x < len(defined); x++ {
		for y := x + 1; y < len(defined); y++ {
			out = append(out, setBits(defined[x], defined[y]))
		}
	}
	if thorough {
		for x := 0; x < len(defined); x++ {
			for y := x + 1; y < len(defined); y++ {
				for z := y + 1; z < len(defined); z++ {
					out = append(out, setBits(defined[x], defined[y], defined[z]))
				}
			}
		}
	}
	out = append(out, ref.DefinedMask)
	for i := 0; i < 64; i++ {
		if !ref.DefinedBits[i] {
			out = append(out, setBits(i))
			b := ref.DefinedMask
			b[i/8] |= 0x80 >> uint(i%8)
			out = append(out, b)
		}
	}
	out = append(out, world.AllAccess)
	return out
}

func wantKeys(b [8]byte) []string {
	var k []string
	for _, p := range ref.Privs {
		if ref.BitSet(b, p.Bit) {
			k = append(k, p.Key)
		}
	}
	sort.Strings(k)
	return k
}

// trueKeys parses an account YAML text (independently of the repository's types) and returns the
// keys under Access that are true.
func trueKeys(text string) ([]string, error) {
	var doc map[string]interface{}
	if err := yaml.Unmarshal([]byte(text), &doc); err != nil {
		return nil, err
	}
	acc, ok := doc["Access"].(map[string]interface{})
	if !ok {
		return nil, fmt.Errorf("Access is not a mapping: %T", doc["Access"])
	}
	var k []string
	for name, v := range acc {
		if t, ok := v.(bool); ok && t {
			k = append(k, name)
		}
	}
	sort.Strings(k)
	return k, nil
}

func c16Check(w *explore.Worker, c c16Case) {
	b := c.Bits
	want := ref.And(b, ref.DefinedMask)
	fail := func(clause, detail string) {
		locus := "multi"
		if l := bitList(b); len(l) == 1 {
			locus = fmt.Sprintf("bit%d", l[0])
		}
		w.Violation("C16/"+c.Path+"/"+clause+"/"+locus, fmt.Sprintf("bitmap %s (bits %v): %s", bitsString(b), bitList(b), detail), len(bitList(b)), c)
	}
	switch c.Path {
	case "yaml":
		acc := hotline.Account{Login: "u", Name: "U", Password: "x", Access: hotline.AccessBitmap(b)}
		out, err := yaml.Marshal(acc)
		if err != nil {
			fail("marshal-error", err.Error())
			return
		}
		keys, err := trueKeys(string(out))
		if err != nil {
			fail("saved-form-unparseable", err.Error())
			return
		}
		if strings.Join(keys, ",") != strings.Join(wantKeys(b), ",") {
			fail("saved-keys-differ-from-protocol-names", fmt.Sprintf("keys true in file %v, protocol names of the set bits %v", keys, wantKeys(b)))
		}
		var back hotline.Account
		if err := yaml.Unmarshal(out, &back); err != nil {
			fail("unmarshal-error", err.Error())
			return
		}
		if [8]byte(back.Access) != want {
			fail("load-after-save-differs", fmt.Sprintf("loaded %s want %s", bitsString([8]byte(back.Access)), bitsString(want)))
		}
		w.Outcome(fmt.Sprintf("yaml %s -> %s", bitsString(b), strings.Join(keys, ",")))
	case "legacy":
		text := world.AccountYAML(world.Acct{Login: "u", Name: "U", Access: b})
		var legacy hotline.Account
		if err := yaml.Unmarshal([]byte(text), &legacy); err != nil {
			fail("legacy-unmarshal-error", err.Error())
			return
		}
		named, _ := yaml.Marshal(hotline.Account{Login: "u", Name: "U", Access: hotline.AccessBitmap(b)})
		var viaNamed hotline.Account
		_ = yaml.Unmarshal(named, &viaNamed)
		if ref.And([8]byte(legacy.Access), ref.DefinedMask) != ref.And([8]byte(viaNamed.Access), ref.DefinedMask) {
			fail("legacy-and-named-forms-load-differently", fmt.Sprintf("legacy %s named %s", bitsString([8]byte(legacy.Access)), bitsString([8]byte(viaNamed.Access))))
		}
		if ref.And([8]byte(legacy.Access), ref.DefinedMask) != want {
			fail("legacy-load-differs", fmt.Sprintf("loaded %s want %s", bitsString([8]byte(legacy.Access)), bitsString(want)))
		}
		w.Outcome(fmt.Sprintf("legacy %s -> %s", bitsString(b), bitsString([8]byte(legacy.Access))))
	case "manager":
		dir, err := os.MkdirTemp(os.Getenv("VERIF_SCRATCH"), "c16-")
		if err != nil {
			w.Broken("mkdtemp: %v", err)
			return
		}
		defer os.RemoveAll(dir)
		// a legacy file (migrated on load) and an account created through the manager
		_ = os.WriteFile(filepath.Join(dir, "old.yaml"), []byte(world.AccountYAML(world.Acct{Login: "old", Name: "Old", Access: b})), 0644)
		m1, err := mobius.NewYAMLAccountManager(dir)
		if err != nil {
			fail("manager-load-error", err.Error())
			return
		}
		if err := m1.Create(*hotline.NewAccount("new", "New", "pw", hotline.AccessBitmap(b))); err != nil {
			fail("manager-create-error", err.Error())
			return
		}
		m2, err := mobius.NewYAMLAccountManager(dir)
		if err != nil {
			fail("manager-reload-error", err.Error())
			return
		}
		for _, login := range []string{"old", "new"} {
			a := m2.Get(login)
			if a == nil {
				fail("account-missing-after-reload/"+login, "")
				continue
			}
			if ref.And([8]byte(a.Access), ref.DefinedMask) != want || !ref.Subset([8]byte(a.Access), b) {
				fail("reload-differs/"+login, fmt.Sprintf("reloaded %s want %s", bitsString([8]byte(a.Access)), bitsString(want)))
			}
			raw, _ := os.ReadFile(filepath.Join(dir, login+".yaml"))
			keys, err := trueKeys(string(raw))
			if err != nil {
				fail("file-unparseable/"+login, err.Error())
				continue
			}
			if strings.Join(keys, ",") != strings.Join(wantKeys(b), ",") {
				fail("file-keys-differ-from-protocol-names/"+login, fmt.Sprintf("keys true in file %v, want %v", keys, wantKeys(b)))
			}
		}
		w.Outcome("manager " + bitsString(b))
	case "wire":
		c16Wire(w, c, fail)
	}
}

// c16Wire: the access field sent at login carries bit i as bits[i/8] & (0x80 >> i%8), and the
// decision of a request governed by the bit follows it.
func c16Wire(w *explore.Worker, c c16Case, fail func(clause, detail string)) {
	b := c.Bits
	seqChecked(w, "C16", "wire", c, func() {
		wd := world.New(world.Cfg{Board: "board text", Accounts: []world.Acct{
			{Login: "guest", Name: "Guest", Access: world.Bits()},
			{Login: "u", Name: "U", Password: "pw", Access: b},
			{Login: "adm", Name: "adm", Password: "ap", Access: world.AllAccess},
		}})
		defer wd.Close()
		cl, rep := wd.Connect("10.0.0.1:1001", "u", "pw", "uu")
		if rep == nil || rep.Err != 0 {
			fail("login-failed", fmt.Sprint(rep))
			return
		}
		var access []byte
		for _, t := range cl.New() {
			if t.Type == ref.TUserAccess {
				access, _ = t.Get(ref.FUserAccess)
			}
		}
		if len(access) != 8 {
			fail("no-access-transaction", fmt.Sprintf("%x", access))
			return
		}
		var got [8]byte
		copy(got[:], access)
		if ref.And(got, ref.DefinedMask) != ref.And(b, ref.DefinedMask) {
			fail("login-access-field-differs", fmt.Sprintf("sent %s account %s", bitsString(got), bitsString(b)))
		}
		// governed requests: (bit, request, denied iff error reply)
		probes := []struct {
			bit int
			tx  ref.Tx
		}{
			{ref.PNewsReadArt, ref.Tx{Type: ref.TGetMsgs}},
			{ref.POpenUser, ref.Tx{Type: ref.TListUsers}},
			{ref.PSendChat, ref.Tx{Type: ref.TChatSend, Fields: []ref.Fld{ref.FS(ref.FData, "x")}}},
			{ref.PBroadcast, ref.Tx{Type: ref.TUserBroadcast, Fields: []ref.Fld{ref.FS(ref.FData, "x")}}},
			{ref.PCreateFolder, ref.Tx{Type: ref.TNewFolder, Fields: []ref.Fld{ref.FS(ref.FFileName, "nf")}}},
			{ref.PDownloadFolder, ref.Tx{Type: ref.TDownloadFldr, Fields: []ref.Fld{ref.FS(ref.FFileName, "nofolder")}}},
			{ref.PSendPrivMsg, ref.Tx{Type: ref.TSendInstantMsg, Fields: []ref.Fld{ref.F16(ref.FUserID, 1), ref.FS(ref.FData, "x"), ref.F16(ref.FOptions, 1)}}},
			{ref.PGetClientInfo, ref.Tx{Type: ref.TGetClientInfoText, Fields: []ref.Fld{ref.F16(ref.FUserID, 1)}}},
			{ref.PNewsCreateCat, ref.Tx{Type: ref.TNewNewsCat, Fields: []ref.Fld{ref.FS(ref.FNewsCatName, "c")}}},
			{ref.PNewsCreateFldr, ref.Tx{Type: ref.TNewNewsFldr, Fields: []ref.Fld{ref.FS(ref.FFileName, "b")}}},
		}
		var obs []string
		for _, p := range probes {
			id := cl.Send(p.tx)
			world.Quiet()
			r := cl.Reply(id)
			denied := r != nil && r.Err != 0 && strings.Contains(strings.ToLower(fieldStr(r, ref.FError)), "not allowed")
			held := ref.BitSet(b, p.bit)
			if held && denied {
				fail(fmt.Sprintf("decision-denied-although-bit-%d-held", p.bit), fieldStr(r, ref.FError))
			}
			if !held && !denied {
				fail(fmt.Sprintf("decision-granted-although-bit-%d-not-held", p.bit), fmt.Sprint(r))
			}
			obs = append(obs, fmt.Sprintf("%d:%v", p.bit, denied))
		}
		// an administrator edits the account while the session is live: the session is told the new bitmap
		adm, ra := wd.Connect("10.0.0.9:1009", "adm", "ap", "adm")
		if ra == nil || ra.Err != 0 {
			fail("admin-login-failed", fmt.Sprint(ra))
			return
		}
		nb := b
		for i := range nb {
			nb[i] ^= 0xA5 // flips a fixed pattern of bits: every defined privilege changes for some bitmap of the enumeration
		}
		nb = ref.And(nb, ref.DefinedMask)
		cl.New()
		sid := adm.Req(ref.TSetUser, ref.F(ref.FUserLogin, obf("u")), ref.FS(ref.FUserName, "U"), ref.F(ref.FUserPassword, []byte{0}), ref.F(ref.FUserAccess, nb[:]))
		world.Quiet()
		if r := adm.Reply(sid); r == nil || r.Err != 0 {
			fail("set-user-refused", fmt.Sprint(r))
			return
		}
		told := false
		for _, t := range cl.New() {
			if t.Type == ref.TUserAccess {
				told = true
				a2, _ := t.Get(ref.FUserAccess)
				var g2 [8]byte
				copy(g2[:], a2)
				if len(a2) != 8 || ref.And(g2, ref.DefinedMask) != nb {
					fail("access-notification-after-edit-differs-from-new-bitmap", fmt.Sprintf("live session was sent %x, the account now holds %s", a2, bitsString(nb)))
				}
			}
		}
		if !told {
			fail("live-session-not-told-its-new-access", "")
		}
		// an edit whose access field is shorter than 8 bytes: what the session is told is what the account holds
		cl.New()
		sid = adm.Req(ref.TSetUser, ref.F(ref.FUserLogin, obf("u")), ref.FS(ref.FUserName, "U"), ref.F(ref.FUserPassword, []byte{0}), ref.F(ref.FUserAccess, []byte{0, 0x40, 0, 0, 0}))
		world.Quiet()
		if acc := wd.Srv.AccountManager.Get("u"); acc != nil {
			for _, t := range cl.New() {
				if t.Type == ref.TUserAccess {
					a2, _ := t.Get(ref.FUserAccess)
					var g2 [8]byte
					copy(g2[:], a2)
					if ref.And(g2, ref.DefinedMask) != ref.And([8]byte(acc.Access), ref.DefinedMask) {
						fail("access-notification-differs-from-the-account-after-short-field", fmt.Sprintf("live session was sent %x, the account holds %x", a2, acc.Access[:]))
					}
				}
			}
			nb = ref.And([8]byte(acc.Access), ref.DefinedMask)
		}
		// the account is renamed with the multi-account editor, then edited again under its new login: the
		// live session still follows
		rid := adm.Req(ref.TUpdateUser, ref.F(ref.FData, subFields(ref.F(ref.FData, obf("u")), ref.F(ref.FUserLogin, obf("u2")), ref.FS(ref.FUserName, "U"), ref.F(ref.FUserPassword, []byte{0}), ref.F(ref.FUserAccess, nb[:]))))
		world.Quiet()
		if r := adm.Reply(rid); r == nil || r.Err != 0 {
			fail("rename-refused", fmt.Sprint(r))
			return
		}
		nb2 := nb
		for i := range nb2 {
			nb2[i] ^= 0x5A
		}
		nb2 = ref.And(nb2, ref.DefinedMask)
		cl.New()
		sid = adm.Req(ref.TSetUser, ref.F(ref.FUserLogin, obf("u2")), ref.FS(ref.FUserName, "U"), ref.F(ref.FUserPassword, []byte{0}), ref.F(ref.FUserAccess, nb2[:]))
		world.Quiet()
		if r := adm.Reply(sid); r == nil || r.Err != 0 {
			fail("set-user-after-rename-refused", fmt.Sprint(r))
			return
		}
		told = false
		for _, t := range cl.New() {
			if t.Type == ref.TUserAccess {
				told = true
				a2, _ := t.Get(ref.FUserAccess)
				var g2 [8]byte
				copy(g2[:], a2)
				if len(a2) != 8 || ref.And(g2, ref.DefinedMask) != nb2 {
					fail("access-notification-after-rename-and-edit-differs-from-new-bitmap", fmt.Sprintf("live session was sent %x, the account now holds %s", a2, bitsString(nb2)))
				}
			}
		}
		if !told {
			fail("live-session-not-told-its-new-access-after-rename", "")
		}
		w.Outcome("wire " + bitsString(b) + strings.Join(obs, ","))
	})
}

func fieldStr(t *ref.Tx, id uint16) string {
	if t == nil {
		return ""
	}
	d, _ := t.Get(id)
	return string(d)
}

func runC16(w *explore.Worker) {
	bms := c16Bitmaps(w.Thorough)
	paths := []string{"yaml", "legacy", "manager", "wire"}
	n := 0
	for _, b := range bms {
		for _, p := range paths {
			nb := len(bitList(b))
			if p == "wire" && nb > 2 && nb < 40 {
				continue // wire path: subsets up to 2 bits plus the full sets
			}
			if p == "manager" && w.Thorough && nb == 3 && n%7 != 0 {
				// manager path on triples: every 7th (cost); yaml/legacy paths cover all triples
				n++
				continue
			}
			n++
			if !w.Next() {
				continue
			}
			if w.Expired() {
				w.Cap("time budget reached")
				return
			}
			c := c16Case{Bits: b, Path: p}
			w.Eval()
			c16Check(w, c)
			if n%97 == 0 {
				w.Sample(map[string]interface{}{"bits": bitList(b), "path": p})
			}
		}
	}
	w.Count("bitmaps", 0)
	if w.Index == 0 {
		w.Count("bitmaps", len(bms))
	}
}

func replayC16(w *explore.Worker, raw json.RawMessage) {
	var c c16Case
	if err := json.Unmarshal(raw, &c); err != nil {
		w.Broken("bad replay: %v", err)
		return
	}
	c16Check(w, c)
}
