package props

import (
	"encoding/binary"
	"encoding/json"
	"fmt"
	"os"
	"path/filepath"
	"sort"
	"strings"
	"time"

	"gopkg.in/yaml.v3"

	"github.com/jhalter/mobius/hotline"
	"github.com/jhalter/mobius/internal/mobius"
	"github.com/jhalter/mobius/verifh/explore"
	"github.com/jhalter/mobius/verifh/ref"
	"github.com/jhalter/mobius/verifh/vrt"
	"github.com/jhalter/mobius/verifh/world"
)

// C15: accounts — what can log in = what is listed = what is on disk.

func init() {
	register(&Prop{
		ID:    "C15",
		Level: "model_checking",
		Rule: "E-SEQ: breadth-first search over account-management histories (new-user, set-user with marker/new/absent password, delete-user, batched update-user with one or two of create/modify/rename/delete) " +
			"issued by an administrator through the real connection loop; after every transition four views are compared with a reference account model: login attempts for every login x password ever used, " +
			"the list-users reply, the parsed accounts directory, and a second account manager freshly loaded from the directory; states deduplicated by the canonical model+views snapshot",
		Assumptions: []string{"logins {a, b, 'c d'}, passwords {'', p, q}; renames only onto unused logins (renaming onto an existing login is unspecified by the property)"},
		Run:            runC15,
		Replay:         replayC15,
		MinOutcomes:    20,
		QuickBudget:    150 * time.Second,
		ThoroughBudget: 25 * time.Minute,
	})
}

type c15Acct struct {
	Name   string
	Access [8]byte
	Pw     string
}

type c15Model struct {
	accts map[string]*c15Acct
	used  map[string]bool // every login ever named
}

var c15Pw72, c15Pw73 = strings.Repeat("v", 72), strings.Repeat("v", 72) + "w" // bcrypt's input limit is 72 bytes; the two differ in byte 73 only

var c15Pws = []string{"", "p", "q", "\xffz", c15Pw72, c15Pw73} // "\xffz" starts with wire byte 0x00 (obfuscated 0xFF)

var c15LongLogin = strings.Repeat("L", 252) // its account file name exceeds the 255-byte limit: the write fails

var c15AccessA = world.Bits(ref.PReadChat, ref.PSendChat, ref.PDownloadFile)
var c15AccessB = world.Bits(ref.PReadChat, ref.PNewsReadArt)

// sub-operation of a batched update-user request
type c15Sub struct {
	kind  string // create | modify | rename | delete
	login string
	to    string
	pw    string // for modify: "\x00" = unchanged marker, "-" = field absent, else new password
	acc   int    // 0 = access A, 1 = access B
}

// c15Login maps the tokens of the alphabet to logins that are legal file names but hard on the account file format.
func c15Login(tok string) string {
	switch tok {
	case "LONG":
		return c15LongLogin
	case "LEADNL":
		return "\nb" // starts with a line feed
	case "TABNL":
		return "\tq\nr" // starts with a tab and contains a line feed
	case "MAC":
		return "Ren\x8ee" // Mac Roman, as classic clients send it: not valid UTF-8
	}
	return tok
}

func parseSub(s string) c15Sub {
	p := strings.Split(s, ",")
	sub := c15Sub{kind: p[0], login: p[1]}
	switch sub.kind {
	case "create":
		sub.pw = p[2]
	case "modify":
		sub.pw = p[2]
		if len(p) > 3 && p[3] == "B" {
			sub.acc = 1
		}
	case "rename":
		sub.to = p[2]
		sub.pw = "\x00"
	}
	if sub.pw == "MARK" {
		sub.pw = "\x00"
	}
	if sub.pw == "Z" {
		sub.pw = "\xffz"
	}
	if sub.pw == "V" {
		sub.pw = c15Pw72
	}
	if sub.pw == "W" {
		sub.pw = c15Pw73
	}
	sub.login = c15Login(sub.login)
	return sub
}

func accOf(i int) [8]byte {
	if i == 1 {
		return c15AccessB
	}
	return c15AccessA
}

func (s c15Sub) fields() []byte {
	switch s.kind {
	case "delete":
		return subFields(ref.F(ref.FData, obf(s.login)))
	case "create":
		a := accOf(0)
		return subFields(ref.F(ref.FUserLogin, obf(s.login)), ref.FS(ref.FUserName, "N-"+s.login), ref.F(ref.FUserPassword, obf(s.pw)), ref.F(ref.FUserAccess, a[:]))
	case "modify":
		a := accOf(s.acc)
		fs := []ref.Fld{ref.F(ref.FUserLogin, obf(s.login)), ref.FS(ref.FUserName, "M-"+s.login)}
		if s.pw == "\x00" {
			fs = append(fs, ref.F(ref.FUserPassword, []byte{0}))
		} else if s.pw != "-" {
			fs = append(fs, ref.F(ref.FUserPassword, obf(s.pw)))
		}
		fs = append(fs, ref.F(ref.FUserAccess, a[:]))
		return subFields(fs...)
	default: // rename
		a := accOf(0)
		return subFields(ref.F(ref.FData, obf(s.login)), ref.F(ref.FUserLogin, obf(s.to)), ref.FS(ref.FUserName, "R-"+s.to), ref.F(ref.FUserPassword, []byte{0}), ref.F(ref.FUserAccess, a[:]))
	}
}

// enabled: the sub-operation is meaningful in the model state (the property does not say what a
// modify/rename/delete of a missing login or a rename onto an existing login must do).
func (m *c15Model) enabled(s c15Sub) bool {
	_, ex := m.accts[s.login]
	switch s.kind {
	case "create":
		return !ex
	case "rename":
		_, ex2 := m.accts[s.to]
		return ex && !ex2
	default:
		return ex
	}
}

func (m *c15Model) applySub(s c15Sub) {
	m.used[s.login] = true
	switch s.kind {
	case "create":
		m.accts[s.login] = &c15Acct{Name: "N-" + s.login, Access: accOf(0), Pw: s.pw}
	case "modify":
		a := m.accts[s.login]
		a.Name = "M-" + s.login
		a.Access = accOf(s.acc)
		if s.pw == "-" {
			a.Pw = ""
		} else if s.pw != "\x00" {
			a.Pw = s.pw
		}
	case "rename":
		a := m.accts[s.login]
		delete(m.accts, s.login)
		a.Name = "R-" + s.to
		a.Access = accOf(0)
		m.accts[s.to] = a
		m.used[s.to] = true
	case "delete":
		delete(m.accts, s.login)
	}
}

func (m *c15Model) String() string {
	var ls []string
	for l, a := range m.accts {
		ls = append(ls, fmt.Sprintf("%s=%s/%x/%q", l, a.Name, a.Access, a.Pw))
	}
	sort.Strings(ls)
	return strings.Join(ls, ";")
}

type c15World struct {
	wd    *world.World
	adm   *world.Client
	m     *c15Model
	viol  []explore.SchedV
	conns int
}

func (x *c15World) fail(clause, detail string) {
	x.viol = append(x.viol, explore.SchedV{Signature: "C15/" + clause, Detail: detail})
}

// apply executes one operation through the protocol and on the model.
func (x *c15World) apply(op string) bool {
	p := strings.SplitN(op, ":", 2)
	switch p[0] {
	case "new":
		q := strings.Split(p[1], ",")
		s := c15Sub{kind: "create", login: c15Login(q[0]), pw: q[1]}
		if !x.m.enabled(s) {
			return false
		}
		a := accOf(0)
		longID := x.adm.Req(ref.TNewUser, ref.F(ref.FUserLogin, obf(s.login)), ref.FS(ref.FUserName, "N-"+s.login), ref.F(ref.FUserPassword, obf(s.pw)), ref.F(ref.FUserAccess, a[:]))
		if s.login == c15LongLogin {
			// whether a login this long can be stored is the file system's business: the model follows the reply,
			// the four views must agree with it either way
			world.Settle(5 * time.Second)
			if r := x.adm.Reply(longID); r == nil || r.Err != 0 {
				x.m.used[s.login] = true
				return true
			}
		}
		x.m.applySub(s)
	case "set":
		s := parseSub("modify," + p[1])
		if !x.m.enabled(s) {
			return false
		}
		a := accOf(s.acc)
		fs := []ref.Fld{ref.F(ref.FUserLogin, obf(s.login)), ref.FS(ref.FUserName, "M-"+s.login)}
		if s.pw == "\x00" {
			fs = append(fs, ref.F(ref.FUserPassword, []byte{0}))
		} else if s.pw != "-" {
			fs = append(fs, ref.F(ref.FUserPassword, obf(s.pw)))
		}
		fs = append(fs, ref.F(ref.FUserAccess, a[:]))
		x.adm.Req(ref.TSetUser, fs...)
		x.m.applySub(s)
	case "del":
		s := c15Sub{kind: "delete", login: c15Login(p[1])}
		if !x.m.enabled(s) {
			return false
		}
		x.adm.Req(ref.TDeleteUser, ref.F(ref.FUserLogin, obf(s.login)))
		x.m.applySub(s)
	case "batch":
		var subs []c15Sub
		for _, e := range strings.Split(p[1], "+") {
			subs = append(subs, parseSub(e))
		}
		// enabledness is evaluated element by element against the evolving model
		tmp := &c15Model{accts: map[string]*c15Acct{}, used: map[string]bool{}}
		for l, a := range x.m.accts {
			c := *a
			tmp.accts[l] = &c
		}
		for _, s := range subs {
			if !tmp.enabled(s) {
				return false
			}
			tmp.applySub(s)
		}
		var fs []ref.Fld
		for _, s := range subs {
			fs = append(fs, ref.F(ref.FData, s.fields()))
		}
		x.adm.Req(ref.TUpdateUser, fs...)
		for _, s := range subs {
			x.m.applySub(s)
		}
	default:
		panic("op " + op)
	}
	world.Settle(5 * time.Second)
	return true
}

func (x *c15World) tryLogin(login, pw string) bool {
	x.conns++
	c := x.wd.Dial(fmt.Sprintf("10.1.%d.%d:%d", x.conns/250, x.conns%250+1, 3000+x.conns))
	c.Handshake()
	id := c.Login123(login, pw, "t", 1)
	world.Quiet()
	r := c.Reply(id)
	ok := r != nil && r.Err == 0
	c.Hangup()
	world.Quiet()
	return ok
}

type c15View struct {
	Name   string
	Access [8]byte
	HasPw  bool
}

// oneAccount is an account store holding a single account: the server's own login check
// (ClientConn.Authenticate) is run against a stored hash, so that "the hash on disk belongs to the
// current password" is judged by the code that decides logins and not by a copy of its hashing scheme.
type oneAccount struct{ a hotline.Account }

func (o oneAccount) Create(hotline.Account) error         { return nil }
func (o oneAccount) Update(hotline.Account, string) error { return nil }
func (o oneAccount) Delete(string) error                  { return nil }
func (o oneAccount) List() []hotline.Account              { return []hotline.Account{o.a} }
func (o oneAccount) Get(login string) *hotline.Account {
	if login != o.a.Login {
		return nil
	}
	a := o.a
	return &a
}

// c15Verifies: a server whose store holds (login, hash) accepts pw and refuses a password that
// differs from it in the last byte.
func c15Verifies(login, hash, pw string) bool {
	cc := &hotline.ClientConn{Server: &hotline.Server{AccountManager: oneAccount{hotline.Account{Login: login, Password: hash}}}}
	other := []byte(pw + "x")
	if len(pw) > 0 {
		other = []byte(pw)
		other[len(other)-1] ^= 1
	}
	return cc.Authenticate(login, obf(pw)) && !cc.Authenticate(login, obf(string(other)))
}

func (x *c15World) check() string {
	m := x.m
	var obs []string
	// view 1: login attempts
	var logins []string
	for l := range m.used {
		logins = append(logins, l)
	}
	sort.Strings(logins)
	for _, l := range logins {
		for _, pw := range c15Pws {
			got := x.tryLogin(l, pw)
			a, ex := m.accts[l]
			want := ex && a.Pw == pw
			if got != want {
				clause := "login/deleted-or-renamed-away-login-still-authenticates"
				if want {
					clause = "login/valid-credentials-refused"
				} else if ex {
					clause = "login/wrong-password-accepted"
				}
				x.fail(clause, fmt.Sprintf("login %q password %q: authenticated=%v, model says %v (model %s)", l, pw, got, want, m))
			}
			obs = append(obs, fmt.Sprintf("L %s/%s=%v", l, pw, got))
		}
	}
	want := map[string]c15View{}
	for l, a := range m.accts {
		want[l] = c15View{a.Name, a.Access, a.Pw != ""}
	}
	want["admin"] = c15View{"Admin", world.AllAccess, true}
	want["guest"] = c15View{"Guest", [8]byte{}, false}
	cmp := func(view string, got map[string]c15View, hasPwKnown bool) {
		var gl, wl []string
		for l, v := range got {
			if !hasPwKnown {
				v.HasPw = false
			}
			gl = append(gl, fmt.Sprintf("%s=%s/%x/%v", l, v.Name, ref.And(v.Access, ref.DefinedMask), v.HasPw))
		}
		for l, v := range want {
			if !hasPwKnown {
				v.HasPw = false
			}
			wl = append(wl, fmt.Sprintf("%s=%s/%x/%v", l, v.Name, ref.And(v.Access, ref.DefinedMask), v.HasPw))
		}
		sort.Strings(gl)
		sort.Strings(wl)
		if strings.Join(gl, ";") != strings.Join(wl, ";") {
			x.fail("views/"+view+"-differs-from-model", fmt.Sprintf("%s shows %v, model %v", view, gl, wl))
		}
		obs = append(obs, view+":"+strings.Join(gl, ";"))
	}
	// view 2: list-users reply
	id := x.adm.Req(ref.TListUsers)
	world.Quiet()
	if r := x.adm.Reply(id); r == nil || r.Err != 0 {
		x.fail("views/list-users-failed", fmt.Sprint(r))
	} else {
		got := map[string]c15View{}
		for _, d := range r.GetAll(ref.FData) {
			fs, err := decodeSubFields(d)
			if err != nil {
				x.fail("views/list-users-entry-undecodable", err.Error())
				continue
			}
			var v c15View
			login := ""
			for _, f := range fs {
				switch f.ID {
				case ref.FUserName:
					v.Name = string(f.Data)
				case ref.FUserLogin:
					login = string(ref.Obfuscate(f.Data))
				case ref.FUserAccess:
					copy(v.Access[:], f.Data)
				case ref.FUserPassword:
					v.HasPw = true
				}
			}
			if _, dup := got[login]; dup {
				x.fail("views/list-users-shows-a-login-twice", login)
			}
			got[login] = v
		}
		cmp("list-users", got, true)
	}
	// view 3: the accounts directory, parsed independently
	ents, _ := os.ReadDir(x.wd.UsersDir)
	onDisk := map[string]c15View{}
	for _, e := range ents {
		if !strings.HasSuffix(e.Name(), ".yaml") {
			continue // only *.yaml files are accounts (temporary files are not)
		}
		raw, _ := os.ReadFile(filepath.Join(x.wd.UsersDir, e.Name()))
		var doc struct {
			Login    string                 `yaml:"Login"`
			Name     string                 `yaml:"Name"`
			Password string                 `yaml:"Password"`
			Access   map[string]interface{} `yaml:"Access"`
		}
		if err := yaml.Unmarshal(raw, &doc); err != nil {
			x.fail("views/account-file-unparseable", e.Name()+": "+err.Error())
			continue
		}
		if doc.Login+".yaml" != e.Name() {
			x.fail("views/account-file-name-differs-from-login", fmt.Sprintf("file %q holds login %q", e.Name(), doc.Login))
		}
		var v c15View
		v.Name = doc.Name
		for _, p := range ref.Privs {
			if t, _ := doc.Access[p.Key].(bool); t {
				v.Access[p.Bit/8] |= 0x80 >> uint(p.Bit%8)
			}
		}
		if a, ok := m.accts[doc.Login]; ok {
			if !strings.HasPrefix(doc.Password, "$2") {
				x.fail("views/password-not-stored-as-salted-hash", fmt.Sprintf("%s: %q", e.Name(), doc.Password))
			} else if !c15Verifies(doc.Login, doc.Password, a.Pw) {
				x.fail("views/stored-hash-does-not-verify-the-current-password", fmt.Sprintf("%s: model password %q", e.Name(), a.Pw))
			}
			for _, pw := range c15Pws {
				if pw != "" && (strings.Contains(string(raw), pw+"\n") && strings.Contains(string(raw), "Password: "+pw)) {
					x.fail("views/password-stored-in-clear", e.Name())
				}
			}
		}
		onDisk[doc.Login] = v
	}
	cmp("accounts-directory", onDisk, false)
	// view 4: a second manager freshly loaded from the directory
	if m2, err := mobius.NewYAMLAccountManager(x.wd.UsersDir); err != nil {
		x.fail("views/restart-cannot-load-accounts", err.Error())
	} else {
		got := map[string]c15View{}
		for _, a := range m2.List() {
			got[a.Login] = c15View{Name: a.Name, Access: [8]byte(a.Access)}
			if ma, ok := m.accts[a.Login]; ok && !c15Verifies(a.Login, a.Password, ma.Pw) {
				x.fail("views/restarted-server-does-not-verify-the-current-password", fmt.Sprintf("%s: model password %q", a.Login, ma.Pw))
			}
		}
		cmp("restarted-manager", got, false)
	}
	return m.String() + " || " + strings.Join(obs, " | ")
}

func decodeSubFields(b []byte) ([]ref.Fld, error) {
	if len(b) < 2 {
		return nil, fmt.Errorf("short")
	}
	n := int(binary.BigEndian.Uint16(b))
	p := 2
	var out []ref.Fld
	for i := 0; i < n; i++ {
		if p+4 > len(b) {
			return nil, fmt.Errorf("field %d header beyond data", i)
		}
		id := binary.BigEndian.Uint16(b[p:])
		sz := int(binary.BigEndian.Uint16(b[p+2:]))
		p += 4
		if p+sz > len(b) {
			return nil, fmt.Errorf("field %d size beyond data", i)
		}
		out = append(out, ref.Fld{ID: id, Data: b[p : p+sz]})
		p += sz
	}
	if p != len(b) {
		return nil, fmt.Errorf("%d trailing bytes", len(b)-p)
	}
	return out, nil
}

func c15Exec(hist []string) (res explore.SeqResult) {
	s := seq(func() {
		wd := world.New(world.Cfg{Accounts: []world.Acct{
			{Login: "guest", Name: "Guest"},
			{Login: "admin", Name: "Admin", Password: "adminpw", Access: world.AllAccess},
		}})
		defer wd.Close()
		x := &c15World{wd: wd, m: &c15Model{accts: map[string]*c15Acct{}, used: map[string]bool{}}}
		var r *ref.Tx
		x.adm, r = wd.Connect("10.9.9.9:999", "admin", "adminpw", "adm")
		if r == nil || r.Err != 0 {
			res.Violations = append(res.Violations, explore.SchedV{Signature: "C15/setup", Detail: "admin login failed"})
			return
		}
		for _, op := range hist {
			if !x.apply(op) {
				res.Skip = true
				return
			}
		}
		res.Canon = x.check()
		res.Violations = x.viol
	})
	for _, p := range s.Panics() {
		res.Violations = append(res.Violations, explore.SchedV{Signature: "C15/panic/" + vrt.PanicSite(p), Detail: p})
	}
	return res
}

func c15Alphabet(thorough bool) []string {
	var a []string
	logins := []string{"a", "b", "c d"}
	for _, l := range logins {
		a = append(a, "new:"+l+",p", "new:"+l+",")
		a = append(a, "set:"+l+",MARK,B", "set:"+l+",q", "set:"+l+",-", "set:"+l+",Z")
		a = append(a, "del:"+l)
	}
	for _, l := range logins[:2] {
		a = append(a, "batch:create,"+l+",p", "batch:modify,"+l+",MARK,B", "batch:modify,"+l+",q", "batch:modify,"+l+",-", "batch:delete,"+l)
	}
	a = append(a, "new:LONG,p", "del:LONG", "set:LONG,q")
	a = append(a, "new:LEADNL,p", "new:TABNL,p", "set:LEADNL,q", "del:TABNL", "batch:create,TABNL,p")
	a = append(a, "new:MAC,p", "set:MAC,q", "del:MAC", "batch:create,MAC,p", "batch:rename,a,MAC", "batch:rename,MAC,a")
	a = append(a, "new:a,W", "set:a,W", "set:a,V", "batch:modify,a,W", "batch:create,b,W")
	a = append(a, "batch:rename,a,b", "batch:rename,b,a", "batch:rename,a,c d", "batch:rename,c d,a")
	a = append(a,
		"batch:create,a,p+modify,a,q",
		"batch:create,a,p+create,b,q",
		"batch:modify,a,q+modify,b,-",
		"batch:modify,a,q+delete,b",
		"batch:modify,a,MARK,B+rename,a,b",
		"batch:rename,a,b+delete,b",
		"batch:rename,a,b+create,a,q",
		"batch:delete,a+create,a,q",
		"batch:delete,a+delete,b",
	)
	return a
}

// c15Concurrent: two administrators modify the same account at the same time (E-SCHED); whatever
// the interleaving, the running server and the files must end up describing the same account.
func c15Concurrent(kind int) func() explore.SchedOutcome {
	return func() (out explore.SchedOutcome) {
		vrt.BeginSetup()
		wd := world.New(world.Cfg{Accounts: []world.Acct{
			{Login: "guest", Name: "Guest"},
			{Login: "admin", Name: "Admin", Password: "adminpw", Access: world.AllAccess},
			{Login: "a", Name: "orig", Password: "p", Access: c15AccessA},
		}})
		defer wd.Close()
		a1, r1 := wd.Connect("10.9.9.1:991", "admin", "adminpw", "adm1")
		a2, r2 := wd.Connect("10.9.9.2:992", "admin", "adminpw", "adm2")
		if r1 == nil || r2 == nil || r1.Err != 0 || r2.Err != 0 {
			out.Violations = append(out.Violations, explore.SchedV{Signature: "C15/concurrent/setup", Detail: "admin logins failed"})
			return
		}
		accA, accB := c15AccessA, c15AccessB
		t1 := ref.Tx{Type: ref.TSetUser, Fields: []ref.Fld{ref.F(ref.FUserLogin, obf("a")), ref.FS(ref.FUserName, "first"), ref.F(ref.FUserPassword, obf("q")), ref.F(ref.FUserAccess, accA[:])}}
		t2 := ref.Tx{Type: ref.TSetUser, Fields: []ref.Fld{ref.F(ref.FUserLogin, obf("a")), ref.FS(ref.FUserName, "second"), ref.F(ref.FUserPassword, []byte{0}), ref.F(ref.FUserAccess, accB[:])}}
		if kind == 1 {
			t2 = ref.Tx{Type: ref.TUpdateUser, Fields: []ref.Fld{ref.F(ref.FData, c15Sub{kind: "modify", login: "a", pw: "-", acc: 1}.fields())}}
		}
		if kind == 2 { // an edit and a deletion of the same account
			t2 = ref.Tx{Type: ref.TDeleteUser, Fields: []ref.Fld{ref.F(ref.FUserLogin, obf("a"))}}
		}
		a1.Send(t1)
		a2.Send(t2)
		vrt.EndSetup()
		vrt.WaitQuiet()
		mem := wd.Srv.AccountManager.Get("a")
		m2, err := mobius.NewYAMLAccountManager(wd.UsersDir)
		if kind == 2 && err == nil && mem == nil {
			// deleted: then it is gone from the files too
			if d := m2.Get("a"); d != nil {
				out.Violations = append(out.Violations, explore.SchedV{Signature: "C15/concurrent/running-server-and-files-disagree",
					Detail: fmt.Sprintf("after a concurrent edit and deletion of account a: not in memory (cannot log in, not listed), on disk (fresh manager) %s", d.Name)})
			}
			out.Canon = "deleted"
			return out
		}
		if err != nil || mem == nil {
			out.Violations = append(out.Violations, explore.SchedV{Signature: "C15/concurrent/restart-cannot-load-accounts", Detail: fmt.Sprint(err)})
			return
		}
		disk := m2.Get("a")
		which := func(pwHash string) string {
			for _, pw := range c15Pws {
				if c15Verifies("a", pwHash, pw) {
					return pw
				}
			}
			return "?"
		}
		ms := fmt.Sprintf("%s/%x/%q", mem.Name, ref.And([8]byte(mem.Access), ref.DefinedMask), which(mem.Password))
		ds := "missing"
		if disk != nil {
			ds = fmt.Sprintf("%s/%x/%q", disk.Name, ref.And([8]byte(disk.Access), ref.DefinedMask), which(disk.Password))
		}
		if ms != ds {
			out.Violations = append(out.Violations, explore.SchedV{Signature: "C15/concurrent/running-server-and-files-disagree",
				Detail: fmt.Sprintf("after two concurrent modifications of account a: in memory %s, on disk (fresh manager) %s", ms, ds)})
		}
		for _, p := range vrt.S.Panics() {
			out.Violations = append(out.Violations, explore.SchedV{Signature: "C15/concurrent/panic/" + vrt.PanicSite(p), Detail: p})
		}
		out.Canon = ms + "|" + ds
		return out
	}
}

func runC15(w *explore.Worker) {
	bound := 2
	if w.Thorough {
		bound = 3
	}
	for kind := 0; kind < 3; kind++ {
		explore.ExploreSchedules(w, explore.SchedConfig{Harness: "C15concurrent", Params: fmt.Sprint(kind), Bound: bound, FreeCost: 1, MaxSteps: 20000, Suspend: true}, c15Concurrent(kind))
	}
	w.Max("concurrent_deviation_bound_completed", bound)
	depth := 3
	if w.Thorough {
		depth = 4
	}
	explore.ExploreHistories(w, explore.SeqConfig{Name: "C15accounts", Alphabet: c15Alphabet(w.Thorough), Depth: depth, Exec: c15Exec})
}

func replayC15(w *explore.Worker, raw json.RawMessage) {
	var sr explore.SchedReplay
	if json.Unmarshal(raw, &sr) == nil && sr.Kind == "schedule" {
		kind := 0
		fmt.Sscan(sr.Params, &kind)
		_, out, err := explore.RunSchedule(sr.Choices, 20000, c15Concurrent(kind))
		if err != nil {
			w.Broken("replay: %v", err)
		}
		for _, v := range out.Violations {
			w.Violation(v.Signature, v.Detail, 0, sr)
		}
		return
	}
	var r explore.SeqReplay
	if err := json.Unmarshal(raw, &r); err != nil {
		w.Broken("bad replay: %v", err)
		return
	}
	res := c15Exec(r.History)
	for _, v := range res.Violations {
		w.Violation(v.Signature, v.Detail, 0, r)
	}
}
