package props

import (
	"encoding/binary"
	"encoding/json"
	"fmt"
	"io"
	"os"
	"os/exec"
	"path/filepath"
	"regexp"
	"runtime"
	"sort"
	"strings"
	"time"

	"github.com/jhalter/mobius/hotline"
	"github.com/jhalter/mobius/internal/mobius"
	"github.com/jhalter/mobius/verifh/explore"
	"github.com/jhalter/mobius/verifh/vrt/vos"
)

// C20: a crash never leaves persistent state torn.

func init() {
	register(&Prop{
		ID:    "C20",
		Level: "fault_enumeration",
		Rule: "E-ENV crash enumeration on the real stores (message board, threaded news, accounts, ban list) over a scratch config directory: every history of up to 2 (thorough 3) updates from a 15-update alphabet; " +
			"for every update of the history and every boundary between two file-mutating system calls of that update (open/create/truncate, write, close, rename, unlink — counted by the vos shim, whose decomposition is validated against strace of the uninstrumented code) " +
			"the process is 'killed' there, all four stores are re-constructed from the directory with the real constructors, compared with the reference (complete old or complete new value, everything acknowledged earlier intact), and the rest of the history is then run on the restarted stores " +
			"(so leftovers of the crash are exercised) and compared again. " +
			"Real kills: the uninstrumented stores run in a helper process under strace, which delivers SIGKILL on entry to the j-th file system call, for every j of every update kind from the initial directory (thorough: also after every one-update prefix); the dead process's directory is judged by the same oracle and must equal the directory the simulated crash before the corresponding vos step leaves (coverage.real_kill_points / real_kill_equal_to_simulated); " +
			"distinct = distinct (update kind, crash step, outcome) triples",
		Assumptions: []string{"crash = process kill at a system-call boundary (completed system calls survive in the page cache); torn single writes and power loss are out of scope", "the kernel's rename is atomic"},
		Run:            runC20,
		Replay:         replayC20,
		MinOutcomes:    10,
		MaxWorkers:     16,
		QuickBudget:    180 * time.Second,
		ThoroughBudget: 25 * time.Minute,
	})
}

type c20Case struct {
	History []string `json:"history"`
	CrashAt int      `json:"crash_update"` // index of the update that is interrupted (-1: none)
	Step    int      `json:"crash_step"`   // killed before this file-system step (1-based) of that update
}

// ---- reference model of the persistent state ----

type c20Model struct {
	Board string
	News  map[string][]string // category -> article titles (in id order); "" marks a deleted article slot
	Accts map[string]string   // login -> name
	Bans  map[string]string   // ip -> perm|temp
}

func (m c20Model) clone() c20Model {
	n := c20Model{Board: m.Board, News: map[string][]string{}, Accts: map[string]string{}, Bans: map[string]string{}}
	for k, v := range m.News {
		n.News[k] = append([]string(nil), v...)
	}
	for k, v := range m.Accts {
		n.Accts[k] = v
	}
	for k, v := range m.Bans {
		n.Bans[k] = v
	}
	return n
}

func c20Initial() c20Model {
	return c20Model{Board: "old board\r", News: map[string][]string{"C1": {"first"}}, Accts: map[string]string{"guest": "Guest", "a": "A"}, Bans: map[string]string{}}
}

// apply returns false if the update is refused in this state (then nothing changes).
func (m *c20Model) apply(op string) bool {
	p := opSplit(op)
	switch p[0] {
	case "board":
		m.Board = "post-" + p[1] + "\r" + m.Board
	case "newsgrp":
		if _, ok := m.News[p[1]]; ok {
			return false
		}
		m.News[p[1]] = nil
	case "newspost":
		if _, ok := m.News[p[1]]; !ok {
			return false
		}
		// the new id is one above the highest id present (1 if none): deleted trailing slots are reused
		a := m.News[p[1]]
		for len(a) > 0 && a[len(a)-1] == "" {
			a = a[:len(a)-1]
		}
		m.News[p[1]] = append(a, p[2])
	case "newsdelart":
		a, ok := m.News[p[1]]
		if !ok || len(a) == 0 || a[0] == "" {
			return false
		}
		a[0] = ""
	case "newsdelitem":
		if _, ok := m.News[p[1]]; !ok {
			return false
		}
		delete(m.News, p[1])
	case "acctnew":
		if _, ok := m.Accts[p[1]]; ok {
			return false
		}
		m.Accts[p[1]] = "N-" + p[1]
	case "acctmod":
		if _, ok := m.Accts[p[1]]; !ok {
			return false
		}
		m.Accts[p[1]] = "M-" + p[1]
	case "acctren":
		n, ok := m.Accts[p[1]]
		if _, ex := m.Accts[p[2]]; !ok || ex {
			return false
		}
		delete(m.Accts, p[1])
		m.Accts[p[2]] = n
	case "acctdel":
		if _, ok := m.Accts[p[1]]; !ok {
			return false
		}
		delete(m.Accts, p[1])
	case "ban":
		if m.Bans[p[1]] == "perm" && p[2] == "temp" {
			break // a temporary ban leaves a permanent one of the same address in force (C17): nothing changes
		}
		m.Bans[p[1]] = p[2]
	}
	return true
}

func (m c20Model) dump(store string) string {
	switch store {
	case "board":
		return m.Board
	case "news":
		var cats []string
		for c, arts := range m.News {
			var present []string
			for i, t := range arts {
				if t != "" {
					present = append(present, fmt.Sprintf("%d=%s", i+1, t))
				}
			}
			cats = append(cats, c+"["+strings.Join(present, ",")+"]")
		}
		sort.Strings(cats)
		return strings.Join(cats, ";")
	case "accts":
		var l []string
		for k, v := range m.Accts {
			l = append(l, k+"="+v)
		}
		sort.Strings(l)
		return strings.Join(l, ";")
	default:
		var l []string
		for k, v := range m.Bans {
			l = append(l, k+"="+v)
		}
		sort.Strings(l)
		return strings.Join(l, ";")
	}
}

func storeOf(op string) string {
	switch {
	case strings.HasPrefix(op, "board"):
		return "board"
	case strings.HasPrefix(op, "news"):
		return "news"
	case strings.HasPrefix(op, "acct"):
		return "accts"
	}
	return "bans"
}

// ---- the real stores ----

type c20Stores struct {
	board *mobius.FlatNews
	news  *mobius.ThreadedNewsYAML
	acct  *mobius.YAMLAccountManager
	ban   *mobius.BanFile
}

func c20Open(dir string) (*c20Stores, map[string]error) {
	s := &c20Stores{}
	errs := map[string]error{}
	var err error
	if s.board, err = mobius.NewFlatNews(filepath.Join(dir, "MessageBoard.txt")); err != nil {
		errs["board"] = err
	}
	if s.news, err = mobius.NewThreadedNewsYAML(filepath.Join(dir, "ThreadedNews.yaml")); err != nil {
		errs["news"] = err
	}
	if s.acct, err = mobius.NewYAMLAccountManager(filepath.Join(dir, "Users")); err != nil {
		errs["accts"] = err
	}
	if s.ban, err = mobius.NewBanFile(filepath.Join(dir, "Banlist.yaml")); err != nil {
		errs["bans"] = err
	}
	return s, errs
}

func (s *c20Stores) dump(store string) string {
	switch store {
	case "board":
		_, _ = s.board.Seek(0, 0)
		b, _ := io.ReadAll(s.board)
		return string(b)
	case "news":
		var cats []string
		for _, c := range s.news.GetCategories(nil) {
			var present []string
			var ids []int
			for id := range c.Articles {
				ids = append(ids, int(id))
			}
			sort.Ints(ids)
			for _, id := range ids {
				present = append(present, fmt.Sprintf("%d=%s", id, c.Articles[uint32(id)].Title))
			}
			cats = append(cats, c.Name+"["+strings.Join(present, ",")+"]")
		}
		sort.Strings(cats)
		return strings.Join(cats, ";")
	case "accts":
		var l []string
		for _, a := range s.acct.List() {
			l = append(l, a.Login+"="+a.Name)
		}
		sort.Strings(l)
		return strings.Join(l, ";")
	default:
		var l []string
		for _, ip := range []string{"10.0.0.1", "10.0.0.2"} {
			if b, until := s.ban.IsBanned(ip); b {
				k := "perm"
				if until != nil {
					k = "temp"
				}
				l = append(l, ip+"="+k)
			}
		}
		sort.Strings(l)
		return strings.Join(l, ";")
	}
}

func (s *c20Stores) apply(op string) error {
	p := opSplit(op)
	switch p[0] {
	case "board":
		_, err := s.board.Write([]byte("post-" + p[1] + "\r"))
		return err
	case "newsgrp":
		for _, c := range s.news.GetCategories(nil) {
			if c.Name == p[1] {
				return fmt.Errorf("exists")
			}
		}
		return s.news.CreateGrouping(nil, p[1], hotline.NewsCategory)
	case "newspost":
		found := false
		for _, c := range s.news.GetCategories(nil) {
			if c.Name == p[1] {
				found = true
			}
		}
		if !found {
			return fmt.Errorf("no such category")
		}
		return s.news.PostArticle([]string{p[1]}, 0, hotline.NewsArtData{Title: p[2], Poster: "p", Data: "body " + p[2]})
	case "newsdelart":
		if s.news.GetArticle([]string{p[1]}, 1) == nil {
			return fmt.Errorf("no such article")
		}
		return s.news.DeleteArticle([]string{p[1]}, 1, false)
	case "newsdelitem":
		found := false
		for _, c := range s.news.GetCategories(nil) {
			if c.Name == p[1] {
				found = true
			}
		}
		if !found {
			return fmt.Errorf("no such item")
		}
		return s.news.DeleteNewsItem([]string{p[1]})
	case "acctnew":
		if s.acct.Get(p[1]) != nil {
			return fmt.Errorf("exists")
		}
		return s.acct.Create(*hotline.NewAccount(p[1], "N-"+p[1], "pw", hotline.AccessBitmap{}))
	case "acctmod":
		a := s.acct.Get(p[1])
		if a == nil {
			return fmt.Errorf("no such account")
		}
		a.Name = "M-" + p[1]
		return s.acct.Update(*a, a.Login)
	case "acctren":
		a := s.acct.Get(p[1])
		if a == nil || s.acct.Get(p[2]) != nil {
			return fmt.Errorf("no such account / target exists")
		}
		return s.acct.Update(*a, p[2])
	case "acctdel":
		if s.acct.Get(p[1]) == nil {
			return fmt.Errorf("no such account")
		}
		return s.acct.Delete(p[1])
	case "ban":
		if p[2] == "perm" {
			return s.ban.Add(p[1], nil)
		}
		t := time.Date(2030, 1, 1, 0, 0, 0, 0, time.UTC)
		return s.ban.Add(p[1], &t)
	}
	return fmt.Errorf("unknown update %q", op)
}

const c20News = `Categories:
  C1:
    Type: [0, 3]
    Name: C1
    Articles:
      1:
        Title: first
        Poster: p
        Date: [0, 0, 0, 0, 0, 0, 0, 0]
        PrevArt: [0, 0, 0, 0]
        NextArt: [0, 0, 0, 0]
        ParentArt: [0, 0, 0, 0]
        FirstChildArtArt: [0, 0, 0, 0]
        Data: body
    SubCats: {}
`

func c20MakeDir() string {
	dir, err := os.MkdirTemp(os.Getenv("VERIF_SCRATCH"), "c20-")
	if err != nil {
		panic(err)
	}
	_ = os.MkdirAll(filepath.Join(dir, "Users"), 0755)
	_ = os.WriteFile(filepath.Join(dir, "MessageBoard.txt"), []byte("old board\r"), 0644)
	_ = os.WriteFile(filepath.Join(dir, "ThreadedNews.yaml"), []byte(c20News), 0644)
	g := hotline.NewAccount("guest", "Guest", "", hotline.AccessBitmap{})
	a := hotline.NewAccount("a", "A", "pw", hotline.AccessBitmap{})
	m, _ := c20BootstrapAccounts(dir, g, a)
	_ = m
	return dir
}

func c20BootstrapAccounts(dir string, accts ...*hotline.Account) (*mobius.YAMLAccountManager, error) {
	// the account manager refuses an empty directory: write the first file by hand in the named form
	for _, a := range accts {
		b, _ := yamlMarshal(a)
		_ = os.WriteFile(filepath.Join(dir, "Users", a.Login+".yaml"), b, 0644)
	}
	return mobius.NewYAMLAccountManager(filepath.Join(dir, "Users"))
}

type stepLog struct {
	steps []vos.Step
}

// runUpdate applies op; if crashStep>0 the goroutine is ended right before that file-system step.
func runUpdate(s *c20Stores, op string, crashStep int, log *stepLog) (err error, crashed bool) {
	done := make(chan struct{})
	n := 0
	vos.Hook = func(st vos.Step) {
		n++
		if log != nil {
			log.steps = append(log.steps, st)
		}
		if crashStep > 0 && n == crashStep {
			crashed = true
			vos.Dead = true // deferred calls of the dying goroutine still run: they must not reach the disk
			runtime.Goexit()
		}
	}
	go func() {
		defer close(done)
		err = s.apply(op)
	}()
	<-done
	vos.Hook = nil
	vos.Dead = false
	return err, crashed
}

func c20Run(w *explore.Worker, c c20Case) (steps int) {
	fail := func(clause, detail string) {
		kind := "none"
		if c.CrashAt >= 0 && c.CrashAt < len(c.History) {
			kind = strings.Split(c.History[c.CrashAt], ":")[0]
		}
		w.Violation("C20/"+clause+"/update="+kind, fmt.Sprintf("case %s: %s", js(c), detail), len(c.History)*100+c.Step, c)
	}
	dir := c20MakeDir()
	defer os.RemoveAll(dir)
	model := c20Initial()
	stores, errs := c20Open(dir)
	if len(errs) != 0 {
		w.Broken("C20: fresh stores do not load: %v", errs)
		return 0
	}
	outcome := "complete"
	for i, op := range c.History {
		if i == c.CrashAt {
			before := model.clone()
			after := model.clone()
			accepted := after.apply(op)
			var log stepLog
			err, crashed := runUpdate(stores, op, c.Step, &log)
			steps = len(log.steps)
			if !crashed {
				// fewer steps than c.Step: the update completed; treat as an ordinary acknowledged update
				if err == nil && accepted {
					model = after
				}
				outcome = "no-crash"
				continue
			}
			// restart: every store must load, the interrupted store holds old or new, everything else is intact
			var rerrs map[string]error
			stores, rerrs = c20Open(dir)
			if len(rerrs) != 0 {
				for st, e := range rerrs {
					fail("store-does-not-load-after-crash/"+st, fmt.Sprintf("killed before step %d (%s %s) of %q: %v", c.Step, log.steps[len(log.steps)-1].Op, filepath.Base(log.steps[len(log.steps)-1].Path), op, e))
				}
				return steps
			}
			st := storeOf(op)
			got := stores.dump(st)
			switch {
			case got == before.dump(st):
				outcome = "old"
			case accepted && got == after.dump(st):
				outcome = "new"
				model = after
			default:
				last := log.steps[len(log.steps)-1]
				fail("neither-old-nor-new-after-crash/"+st, fmt.Sprintf("killed before step %d (%s %s) of %q: store holds %q, old value %q, new value %q", c.Step, last.Op, filepath.Base(last.Path), op, clip(got, 300), clip(before.dump(st), 300), clip(after.dump(st), 300)))
				return steps
			}
			for _, other := range []string{"board", "news", "accts", "bans"} {
				if other != st && stores.dump(other) != model.dump(other) {
					fail("unrelated-store-changed-by-crash/"+other, fmt.Sprintf("%q vs %q", stores.dump(other), model.dump(other)))
				}
			}
			continue
		}
		want := model.clone()
		accepted := want.apply(op)
		err, _ := runUpdate(stores, op, 0, nil)
		if accepted && err != nil && strings.HasPrefix(op, "acctdel:") && len(model.Accts) == 1 {
			continue // the last account: refusing to delete it is fine (a server without accounts does not start)
		}
		if accepted && err != nil {
			fail("update-after-restart-refused", fmt.Sprintf("update %d %q returned %v (leftovers of the crash?)", i, op, err))
			return steps
		}
		if accepted && err == nil {
			model = want
		}
	}
	// final restart: everything acknowledged is there
	final, ferrs := c20Open(dir)
	for st, e := range ferrs {
		fail("store-does-not-load-at-the-end/"+st, e.Error())
	}
	if len(ferrs) == 0 {
		for _, st := range []string{"board", "news", "accts", "bans"} {
			if final.dump(st) != model.dump(st) {
				fail("acknowledged-state-lost-or-corrupted/"+st, fmt.Sprintf("after restart the store holds %q, acknowledged %q", clip(final.dump(st), 300), clip(model.dump(st), 300)))
			}
		}
	}
	kind := "none"
	if c.CrashAt >= 0 {
		kind = strings.Split(c.History[c.CrashAt], ":")[0]
	}
	w.Outcome(fmt.Sprintf("%s step=%d %s", kind, c.Step, outcome))
	return steps
}

var c20Alphabet = []string{"board:1", "board:2", "newsgrp:C2", "newspost:C1:second", "newspost:C1:" + strings.Repeat("long", 200), "newspost:C1:\ttab\nlf", "newsgrp:<<", "newspost:C1:Caf%8E", "acctnew:Ren%8Ee", "newsdelart:C1", "newsdelitem:C1",
	"acctnew:b", "acctmod:a", "acctren:a:c", "acctdel:a", "acctdel:guest", "acctmod:b", "ban:10.0.0.1:temp", "ban:10.0.0.1:perm", "ban:10.0.0.2:perm"}

func c20Histories(depth int) [][]string {
	var out [][]string
	var rec func(cur []string)
	rec = func(cur []string) {
		if len(cur) > 0 {
			out = append(out, append([]string(nil), cur...))
		}
		if len(cur) == depth {
			return
		}
		for _, op := range c20Alphabet {
			rec(append(cur, op))
		}
	}
	rec(nil)
	return out
}

func runC20(w *explore.Worker) {
	depth := 2
	if w.Thorough {
		depth = 3
	}
	if w.Index == 0 {
		c20Conformance(w)
	}
	// real SIGKILLs of the uninstrumented code: every file system call of every update kind from the
	// initial directory (thorough: also after every one-update prefix)
	for _, op := range c20Alphabet {
		if w.Next() {
			c20RealKill(w, nil, op, 0)
		}
	}
	if w.Thorough {
		for _, p := range c20Alphabet {
			for _, op := range c20Alphabet {
				if w.Next() {
					c20RealKill(w, []string{p}, op, 0)
				}
			}
		}
	}
	hs := c20Histories(depth)
	points := 0
	for hi, h := range hs {
		if !w.Next() {
			continue
		}
		if w.Expired() {
			w.Cap("time budget reached")
			return
		}
		// uninterrupted run
		w.Eval()
		c20Run(w, c20Case{History: h, CrashAt: -1})
		for i := range h {
			// number of steps of update i: probe with a crash step beyond any update, then enumerate
			n := c20Run(w, c20Case{History: h, CrashAt: i, Step: 1 << 20})
			for k := 1; k <= n; k++ {
				w.Eval()
				points++
				c20Run(w, c20Case{History: h, CrashAt: i, Step: k})
			}
		}
		if hi%97 == 0 {
			w.Sample(map[string]interface{}{"history": h, "crash_points_enumerated": "every file-system step of every update"})
		}
	}
	w.Count("crash_points", points)
	if w.Index == 0 {
		w.Count("histories", len(hs))
	}
}

func replayC20(w *explore.Worker, raw json.RawMessage) {
	var k c20KillCase
	if err := json.Unmarshal(raw, &k); err == nil && k.RealKill {
		c20RealKill(w, k.Prefix, k.Op, k.Call)
		return
	}
	var c c20Case
	if err := json.Unmarshal(raw, &c); err != nil {
		w.Broken("bad replay: %v", err)
		return
	}
	c20Run(w, c)
}

// ---- binding the shim's step decomposition to reality ----

var straceLine = regexp.MustCompile(`^(\d+\s+)?(\w+)\((.*)\)\s+=\s+(-?\d+|\?)`)

const c20TraceSet = "open,openat,creat,write,close,rename,renameat,renameat2,unlink,unlinkat,fsync,fdatasync,ftruncate"

// c20Call is one file-mutating system call on the config directory, after the MARK line.
type c20Call struct {
	Ord  int    // 1-based ordinal among the system calls of the same name in the trace (what strace's when= counts)
	Line int    // 1-based ordinal among all traced system calls
	Op   string // "open x.yaml", "write x.yaml", ... in the vocabulary of the vos shim
	Call string // system call name
}

// c20ParseTrace extracts the file-mutating system calls on dir that follow the MARK line.
func c20ParseTrace(raw, dir string) (calls []c20Call, total int) {
	fds := map[string]string{}
	perName := map[string]int{}
	started := false
	for _, line := range strings.Split(raw, "\n") {
		m := straceLine.FindStringSubmatch(line)
		if m == nil {
			continue
		}
		total++
		call, args, ret := m[2], m[3], m[4]
		perName[call]++
		if call == "write" && strings.HasPrefix(args, "2, \"MARK") {
			started = true
			continue
		}
		if !started {
			continue
		}
		add := func(op string) { calls = append(calls, c20Call{Ord: perName[call], Line: total, Op: op, Call: call}) }
		switch call {
		case "openat", "open", "creat":
			if !strings.Contains(args, dir) || ret == "-1" {
				continue
			}
			if !(strings.Contains(args, "O_WRONLY") || strings.Contains(args, "O_RDWR") || strings.Contains(args, "O_CREAT") || call == "creat") {
				continue
			}
			q := strings.SplitN(args[strings.Index(args, dir):], "\"", 2)[0]
			if ret != "?" {
				fds[ret] = q
			}
			add("open " + filepath.Base(q))
		case "write":
			fd := strings.SplitN(args, ",", 2)[0]
			if p, ok := fds[fd]; ok {
				add("write " + filepath.Base(p))
			}
		case "fsync", "fdatasync", "ftruncate":
			fd := strings.TrimSpace(strings.SplitN(args, ",", 2)[0])
			if p, ok := fds[fd]; ok {
				add(map[string]string{"fsync": "fsync", "fdatasync": "fsync", "ftruncate": "truncate"}[call] + " " + filepath.Base(p))
			}
		case "close":
			fd := strings.TrimSpace(args)
			if p, ok := fds[fd]; ok {
				add("close " + filepath.Base(p))
				delete(fds, fd)
			}
		case "rename", "renameat", "renameat2":
			if strings.Contains(args, dir) {
				q := strings.SplitN(args[strings.Index(args, dir):], "\"", 2)[0]
				add("rename " + filepath.Base(q))
			}
		case "unlink", "unlinkat":
			if strings.Contains(args, "AT_REMOVEDIR") {
				continue // os.Remove tries rmdir after a failed unlink: one logical step, and a directory is not a store file
			}
			if strings.Contains(args, dir) {
				q := strings.SplitN(args[strings.Index(args, dir):], "\"", 2)[0]
				add("unlink " + filepath.Base(q))
			}
		}
	}
	return calls, total
}

// collapse merges consecutive writes to the same file (one logical write may be several syscalls).
func c20Collapse(l []string) []string {
	var o []string
	for _, s := range l {
		if len(o) > 0 && o[len(o)-1] == s && strings.HasPrefix(s, "write ") {
			continue
		}
		o = append(o, s)
	}
	return o
}

// c20Conformance runs each update kind once in an uninstrumented subprocess under strace and
// compares the file-mutating system calls on the config directory with the shim's step log.
func c20Conformance(w *explore.Worker) {
	refBin := os.Getenv("VERIF_C20REF")
	if refBin == "" {
		w.Note("strace_conformance", "skipped: VERIF_C20REF not set")
		return
	}
	if _, err := exec.LookPath("strace"); err != nil {
		w.Note("strace_conformance", "skipped: strace not available")
		return
	}
	validated := 0
	var mismatches []string
	for _, op := range c20Alphabet {
		// shim log
		dir := c20MakeDir()
		stores, _ := c20Open(dir)
		var log stepLog
		runUpdate(stores, op, 0, &log)
		var shim []string
		for _, s := range log.steps {
			shim = append(shim, s.Op+" "+filepath.Base(s.Path))
		}
		os.RemoveAll(dir)
		// traced run of the uninstrumented code on an identical directory
		dir2 := c20MakeDir()
		trace := filepath.Join(dir2, "..", filepath.Base(dir2)+".strace")
		cmd := exec.Command("strace", "-f", "-o", trace, "-e", "trace="+c20TraceSet, refBin, dir2, op)
		cmd.Env = append(os.Environ(), "GOMAXPROCS=1")
		if out, err := cmd.CombinedOutput(); err != nil {
			w.Note("strace_conformance", fmt.Sprintf("skipped: strace failed: %v %s", err, clip(string(out), 200)))
			os.RemoveAll(dir2)
			os.Remove(trace)
			return
		}
		raw, _ := os.ReadFile(trace)
		os.Remove(trace)
		os.RemoveAll(dir2)
		calls, _ := c20ParseTrace(string(raw), dir2)
		var real []string
		for _, c := range calls {
			real = append(real, c.Op)
		}
		a, b := strings.Join(c20Collapse(shim), ", "), strings.Join(c20Collapse(real), ", ")
		if a == b {
			validated++
		} else {
			mismatches = append(mismatches, fmt.Sprintf("%s: shim [%s] strace [%s]", op, a, b))
		}
	}
	w.Count("traces_validated_against_impl", validated)
	w.Note("strace_conformance", fmt.Sprintf("%d of %d update kinds: system-call sequence of the uninstrumented code equals the shim's step log", validated, len(c20Alphabet)))
	if len(mismatches) > 0 {
		w.Broken("C20: the vos step decomposition does not match the traced system calls: %s", strings.Join(mismatches, " || "))
	}
}

// ---- real kills: the uninstrumented code, SIGKILLed by strace on entry to its j-th file system call ----

// c20Snapshot describes a config directory: which files exist, which are empty, whether every store
// loads and what each holds.  (Raw bytes are not compared: password salts and dates differ per run.)
func c20Snapshot(dir string) string {
	var l []string
	_ = filepath.Walk(dir, func(p string, fi os.FileInfo, err error) error {
		if err != nil || fi.IsDir() {
			return nil
		}
		rel, _ := filepath.Rel(dir, p)
		e := "nonempty"
		if fi.Size() == 0 {
			e = "EMPTY"
		}
		l = append(l, rel+":"+e)
		return nil
	})
	sort.Strings(l)
	s, errs := c20Open(dir)
	for _, st := range []string{"board", "news", "accts", "bans"} {
		if e, bad := errs[st]; bad {
			l = append(l, st+" DOES NOT LOAD: "+strings.ReplaceAll(e.Error(), dir, "$D"))
		} else {
			l = append(l, st+"="+s.dump(st))
		}
	}
	return strings.Join(l, "\n")
}

type c20KillCase struct {
	RealKill bool     `json:"real_kill"`
	Prefix   []string `json:"prefix"`
	Op       string   `json:"op"`
	Call     int      `json:"kill_before_file_call"` // 1-based index among the update's file system calls
}

// c20RealKill: for the update op after the uninterrupted prefix, the uninstrumented helper is run
// under strace once per file system call j of the update and killed (SIGKILL delivered on entry to
// the call, which therefore does not execute).  The directory the dead process leaves behind is
// (a) judged by the property's own oracle — every store loads, the store in flight holds the old or
// the new value, the others are untouched — and (b) compared with the directory the simulated crash
// before the corresponding vos step leaves, which is what binds the exhaustive simulated
// enumeration to real process deaths.  only>0 restricts the run to one call (replay).
func c20RealKill(w *explore.Worker, prefix []string, op string, only int) {
	refBin := os.Getenv("VERIF_C20REF")
	if refBin == "" {
		return
	}
	if _, err := exec.LookPath("strace"); err != nil {
		return
	}
	env := append(os.Environ(), "GOMAXPROCS=1")
	mkReal := func() (string, bool) {
		d := c20MakeDir()
		for _, p := range prefix {
			cmd := exec.Command(refBin, d, p)
			cmd.Env = env
			if err := cmd.Run(); err != nil {
				w.Note("real_kill", fmt.Sprintf("skipped: helper failed on prefix %q: %v", p, err))
				os.RemoveAll(d)
				return "", false
			}
		}
		return d, true
	}
	// reference trace (no kill): ordinals of the update's file system calls
	dirT, ok := mkReal()
	if !ok {
		return
	}
	trace := filepath.Join(dirT, "..", filepath.Base(dirT)+".strace")
	cmd := exec.Command("strace", "-o", trace, "-e", "trace="+c20TraceSet, refBin, dirT, op)
	cmd.Env = env
	if out, err := cmd.CombinedOutput(); err != nil {
		w.Note("real_kill", fmt.Sprintf("skipped: strace failed: %v %s", err, clip(string(out), 200)))
		os.RemoveAll(dirT)
		os.Remove(trace)
		return
	}
	raw, _ := os.ReadFile(trace)
	os.Remove(trace)
	os.RemoveAll(dirT)
	calls, _ := c20ParseTrace(string(raw), dirT)

	// model and shim step log of the same update after the same prefix
	model := c20Initial()
	for _, p := range prefix {
		m2 := model.clone()
		if m2.apply(p) {
			model = m2
		}
	}
	before, after := model.clone(), model.clone()
	accepted := after.apply(op)
	var shim []vos.Step
	{
		d := c20MakeDir()
		s, _ := c20Open(d)
		for _, p := range prefix {
			runUpdate(s, p, 0, nil)
		}
		var log stepLog
		runUpdate(s, op, 0, &log)
		shim = log.steps
		os.RemoveAll(d)
	}
	// map every real call to the vos step it belongs to (-1: a continuation write without a step of its own)
	stepOf := make([]int, len(calls))
	si := 0
	for j, c := range calls {
		switch {
		case si < len(shim) && c.Op == shim[si].Op+" "+filepath.Base(shim[si].Path):
			stepOf[j] = si + 1
			si++
		case j > 0 && c.Op == calls[j-1].Op && strings.HasPrefix(c.Op, "write "):
			stepOf[j] = -1
		default:
			w.Note("real_kill", fmt.Sprintf("skipped for %q after %v: call %d (%s) has no vos step", op, prefix, j+1, c.Op))
			return
		}
	}
	st := storeOf(op)
	for j, c := range calls {
		if only > 0 && j+1 != only {
			continue
		}
		kc := c20KillCase{RealKill: true, Prefix: prefix, Op: op, Call: j + 1}
		fail := func(clause, detail string) {
			w.Violation("C20/realkill/"+clause+"/update="+strings.Split(op, ":")[0], fmt.Sprintf("case %s: %s", js(kc), detail), 1000+len(prefix)*100+j, kc)
		}
		w.Eval()
		var dirR, got string
		landed := false
		for attempt := 0; attempt < 3 && !landed; attempt++ {
			var ok bool
			if dirR, ok = mkReal(); !ok {
				return
			}
			tr := filepath.Join(dirR, "..", filepath.Base(dirR)+".strace")
			cmd := exec.Command("strace", "-o", tr, "-e", "trace="+c20TraceSet, "-e", fmt.Sprintf("inject=%s:signal=KILL:when=%d", c.Call, c.Ord), refBin, dirR, op)
			cmd.Env = env
			_ = cmd.Run() // strace dies with its tracee's signal
			rawK, _ := os.ReadFile(tr)
			os.Remove(tr)
			// did the kill land on entry to the intended call?
			kcalls, ktotal := c20ParseTrace(string(rawK), dirR)
			if strings.Contains(string(rawK), "killed by SIGKILL") && ktotal == c.Line && len(kcalls) == j+1 && kcalls[j].Op == c.Op {
				landed = true
			} else {
				os.RemoveAll(dirR)
			}
		}
		if !landed {
			w.Count("real_kill_not_landed", 1)
			continue
		}
		w.Count("real_kill_points", 1)
		got = c20Snapshot(dirR)
		// (a) the property itself on the leftovers of the dead process
		stores, rerrs := c20Open(dirR)
		for s2, e := range rerrs {
			fail("store-does-not-load-after-kill/"+s2, fmt.Sprintf("killed on entry to file call %d (%s) of %q: %v", j+1, c.Op, op, e))
		}
		outcome := "?"
		if len(rerrs) == 0 {
			d := stores.dump(st)
			switch {
			case d == before.dump(st):
				outcome = "old"
			case accepted && d == after.dump(st):
				outcome = "new"
			default:
				fail("neither-old-nor-new-after-kill/"+st, fmt.Sprintf("killed on entry to file call %d (%s) of %q: store holds %q, old value %q, new value %q", j+1, c.Op, op, clip(d, 300), clip(before.dump(st), 300), clip(after.dump(st), 300)))
			}
			for _, other := range []string{"board", "news", "accts", "bans"} {
				if other != st && stores.dump(other) != model.dump(other) {
					fail("unrelated-store-changed-by-kill/"+other, fmt.Sprintf("%q vs %q", stores.dump(other), model.dump(other)))
				}
			}
		}
		os.RemoveAll(dirR)
		// (b) the simulated crash before the corresponding vos step leaves the same directory
		if stepOf[j] > 0 {
			d := c20MakeDir()
			s, _ := c20Open(d)
			for _, p := range prefix {
				runUpdate(s, p, 0, nil)
			}
			_, crashed := runUpdate(s, op, stepOf[j], nil)
			sim := c20Snapshot(d)
			os.RemoveAll(d)
			if !crashed {
				w.Broken("C20 real-kill: simulated crash before step %d of %q did not happen", stepOf[j], op)
				return
			}
			if sim != got {
				w.Broken("C20: the directory a real SIGKILL leaves differs from the simulated crash (update %q after %v, file call %d = vos step %d):\nreal:\n%s\nsimulated:\n%s", op, prefix, j+1, stepOf[j], got, sim)
				return
			}
			w.Count("real_kill_equal_to_simulated", 1)
		}
		w.Outcome(fmt.Sprintf("realkill %s call=%d %s", strings.Split(op, ":")[0], j+1, outcome))
	}
}

var _ = binary.BigEndian
