package props

import (
	"os"
	"encoding/json"
	"fmt"
	"sort"
	"strings"
	"time"

	"github.com/jhalter/mobius/hotline"
	"github.com/jhalter/mobius/verifh/explore"
	"github.com/jhalter/mobius/verifh/ref"
	"github.com/jhalter/mobius/verifh/vrt"
	"github.com/jhalter/mobius/verifh/vrt/vnet"
	"github.com/jhalter/mobius/verifh/world"
)

// C14: each client receives whole, well-formed, correlated transactions.
//
// Harness A (framing): the real processOutbox/sendTransaction with several transactions queued for
// the same client by independent sender threads; every connection Write is a scheduling point.
// Harness B (correlation): two clients in the real connection loop, each issuing requests whose
// replies and broadcasts cross.
// Harness C (login under load): a client logs in and sends its first request without waiting for the
// login reply (in the same segment or the next), while a 40,000-byte broadcast to everybody is in flight.

func init() {
	register(&Prop{
		ID:    "C14",
		Level: "model_checking",
		Rule: "E-SCHED: every schedule of the harness threads (scheduling points: lock, channel, spawn, connection read/write) that departs from the " +
			"run-to-block FIFO schedule at most `bound` times is executed on the real code; a case is one complete schedule; distinct = distinct canonical " +
			"per-client byte-stream observations",
		Assumptions: []string{
			"scheduling points at sync/channel/spawn/sleep/connection operations; code between two points is atomic (sequential consistency)",
			"a connection Write call is atomic, calls from different threads interleave (TCP semantics)",
			"deviation bound as stated in coverage; sizes from the stated set",
		},
		Run:            runC14,
		Replay:         replayC14,
		MinOutcomes:    2,
		QuickBudget:    300 * time.Second,
		ThoroughBudget: 25 * time.Minute,
	})
}

type c14Params struct {
	Harness string `json:"h"`
	Sizes   []int  `json:"sizes,omitempty"`  // harness A: data sizes of the transactions for client 1 (client 2 gets one small one)
	Reqs    []int  `json:"reqs,omitempty"`   // harness B: request kinds
	Solo    bool   `json:"solo,omitempty"`   // harness B baseline: client a issues Reqs alone
	Wrap    bool   `json:"wrap,omitempty"`   // harness B: the second client connects after the 16-bit id counter has wrapped
	Follow  int    `json:"follow,omitempty"` // harness C: data size of the request the new client sends right behind its login (0: a user-list request)
	Joined  bool   `json:"joined,omitempty"` // harness C: login and follow-up request arrive in one segment
	Board   int    `json:"board,omitempty"`  // harness B: size of the message board in 16-byte units (0: 2560 = 40 KiB)
	Fields  int    `json:"fields,omitempty"` // harness A: the first transaction additionally carries this many one-byte fields
}

// c14Answered[kind] = the request kind gets a reply when issued alone (measured by a baseline
// execution under the default schedule, not assumed).
var c14Answered map[int]bool

func c14Baseline(w *explore.Worker) {
	if c14Answered != nil {
		return
	}
	c14Answered = map[int]bool{}
	for k := 0; k < c14NumKinds; k++ {
		_, out, err := explore.RunSchedule(nil, 20000, c14Body(c14Params{Harness: "B", Reqs: []int{k}, Solo: true}))
		if err != nil {
			w.Broken("C14 baseline: %v", err)
			return
		}
		c14Answered[k] = strings.Contains(out.Canon, "solo-answered")
	}
}

func (p c14Params) String() string { b, _ := json.Marshal(p); return string(b) }

func c14Body(p c14Params) func() explore.SchedOutcome {
	if p.Harness == "A" {
		return func() explore.SchedOutcome { return c14A(p) }
	}
	if p.Harness == "C" {
		return func() explore.SchedOutcome { return c14C(p) }
	}
	if p.Harness == "D" {
		return func() explore.SchedOutcome { return c14D(p) }
	}
	if p.Harness == "E" {
		return func() explore.SchedOutcome { return c14E(p) }
	}
	if p.Harness == "F" {
		return func() explore.SchedOutcome { return c14F(p) }
	}
	return func() explore.SchedOutcome { return c14B(p) }
}

// Harness D (login while the account goes away): a client logs in with valid credentials while an administrator
// deletes that account.  Alone, in either order, the login is answered (accepted, or "Incorrect login."); it must be
// answered, once, under every schedule.
func c14D(p c14Params) (out explore.SchedOutcome) {
	vrt.BeginSetup()
	w := world.New(world.Cfg{Accounts: []world.Acct{{Login: "guest", Name: "Guest"}, {Login: "admin", Name: "Admin", Password: "secret", Access: world.AllAccess}, {Login: "vic", Name: "Vic", Password: "vp", Access: world.AllAccess}}})
	defer w.Close()
	// vic's connection is opened first: the default schedule then completes the login before the deletion, and one
	// deviation (the login held up between the password check and the registration) reaches the window
	c := w.Dial("10.0.0.3:1003")
	c.Name = "vic"
	c.Handshake()
	world.Quiet()
	adm, ra := w.Connect("10.0.0.1:1001", "admin", "secret", "adm")
	if ra == nil {
		out.Violations = append(out.Violations, explore.SchedV{Signature: "C14/D/setup-login-failed", Detail: "login got no reply"})
		return out
	}
	adm.New()
	login := world.LoginTx("vic", "vp", ref.FS(ref.FUserName, "vic"), ref.F16(ref.FUserIconID, 1))
	login.ID = 0x30001
	c.Send(login)
	delID := adm.Send(ref.Tx{Type: ref.TDeleteUser, Fields: []ref.Fld{ref.F(ref.FUserLogin, ref.Obfuscate([]byte("vic")))}})
	vrt.EndSetup()
	vrt.Settle(10 * time.Second)
	c.Poll()
	n := 0
	for _, t := range c.Inbox {
		if t.IsReply == 1 && t.ID == login.ID {
			n++
		}
	}
	if n == 0 {
		out.Violations = append(out.Violations, explore.SchedV{Signature: "C14/D/correlation/missing-reply/login", Detail: "a login with the account's password, sent while an administrator deletes the account, got no reply at all (connection closed: " + fmt.Sprint(c.Conn.Closed) + ")"})
	}
	if n > 1 {
		out.Violations = append(out.Violations, explore.SchedV{Signature: "C14/D/correlation/duplicate-reply", Detail: fmt.Sprintf("%d replies to the login", n)})
	}
	if adm.Reply(delID) == nil {
		out.Violations = append(out.Violations, explore.SchedV{Signature: "C14/D/correlation/missing-reply/delete-user", Detail: ""})
	}
	// the account is gone: either the login was refused, or the session is ended like every session of a deleted account
	vrt.Settle(10 * time.Second)
	if !c.Conn.Closed && w.Srv.AccountManager.Get("vic") == nil {
		out.Violations = append(out.Violations, explore.SchedV{Signature: "C14/D/session-of-a-deleted-account-stays-connected", Detail: "the account was deleted while its client was logging in; the login was accepted and the session is still connected 20 s later, with the privileges of an account that does not exist"})
	}
	for _, pn := range vrt.S.Panics() {
		out.Violations = append(out.Violations, explore.SchedV{Signature: "C14/D/panic/" + vrt.PanicSite(pn), Detail: pn})
	}
	out.Canon = fmt.Sprintf("login-replies=%d closed=%v", n, c.Conn.Closed)
	return out
}

func pattern(n int, seed byte) []byte {
	b := make([]byte, n)
	for i := range b {
		b[i] = byte(i*7) + seed
	}
	return b
}

func c14A(p c14Params) (out explore.SchedOutcome) {
	vrt.BeginSetup()
	w := world.New(world.Cfg{Accounts: []world.Acct{{Login: "guest", Name: "Guest", Access: world.AllAccess}}})
	defer w.Close()
	conn1 := vnet.NewConn("k1", "10.0.0.1:1001")
	conn2 := vnet.NewConn("k2", "10.0.0.2:1002")
	cc1 := w.Srv.NewClientConn(conn1, "10.0.0.1:1001")
	cc2 := w.Srv.NewClientConn(conn2, "10.0.0.2:1002")
	type queued struct {
		tx  hotline.Transaction
		ref ref.Tx
	}
	var q1, q2 []queued
	oversized := false
	for i, sz := range p.Sizes {
		data := pattern(sz, byte(i+1))
		t := hotline.NewTransaction(hotline.TranServerMsg, cc1.ID, hotline.NewField(hotline.FieldData, data), hotline.NewField(hotline.FieldChatOptions, []byte{0, byte(i)}))
		if i == 0 {
			for k := 0; k < p.Fields; k++ {
				t.Fields = append(t.Fields, hotline.NewField(hotline.FieldUserName, []byte{'x'}))
			}
		}
		if sz > 65535 || p.Fields > 0 {
			oversized = true // what a handler built does not fit the 16-bit prefixes: only the framing is judged
		}
		q1 = append(q1, queued{t, ref.Tx{Type: ref.TServerMsg, Fields: []ref.Fld{ref.F(ref.FData, data), ref.F(ref.FChatOptions, []byte{0, byte(i)})}}})
	}
	{
		t := hotline.NewTransaction(hotline.TranChatMsg, cc2.ID, hotline.NewField(hotline.FieldData, []byte("hello")))
		q2 = append(q2, queued{t, ref.Tx{Type: ref.TChatMsg, Fields: []ref.Fld{ref.FS(ref.FData, "hello")}}})
	}
	vrt.EndSetup()
	outbox := w.Srv.VerifOutbox()
	for i, q := range append(append([]queued{}, q1...), q2...) {
		t := q.tx
		vrt.GoNamed(fmt.Sprintf("sender%d", i), func() { vrt.Send(outbox, t) })
	}
	vrt.WaitQuiet()

	check := func(name string, conn *vnet.Conn, want []queued) string {
		raw := conn.All()
		txs, rest, err := ref.DecodeStream(raw)
		var wantC []string
		for _, q := range want {
			wantC = append(wantC, q.ref.Canon())
		}
		sort.Strings(wantC)
		got := ref.CanonMultiset(txs)
		obs := fmt.Sprintf("%s: %d chunks, %d bytes, %d tx, rest=%d err=%v", name, len(conn.Out), len(raw), len(txs), len(rest), err)
		if err != nil || len(rest) != 0 {
			out.Violations = append(out.Violations, explore.SchedV{
				Signature: "C14/A/framing/stream-not-a-concatenation-of-whole-transactions",
				Detail:    fmt.Sprintf("%s params=%s: byte stream does not re-frame: err=%v trailing=%d; chunk sizes=%v", name, p, err, len(rest), chunkSizes(conn)),
			})
		} else if got != strings.Join(wantC, "\n") && !(oversized && name == "client1") {
			out.Violations = append(out.Violations, explore.SchedV{
				Signature: "C14/A/framing/transactions-differ-from-queued",
				Detail:    fmt.Sprintf("%s params=%s: received\n%s\nqueued\n%s", name, p, got, strings.Join(wantC, "\n")),
			})
		}
		return obs + " sizes=" + fmt.Sprint(chunkSizes(conn))
	}
	o1 := check("client1", conn1, q1)
	o2 := check("client2", conn2, q2)
	if wd := vrt.Wedged(); len(wd) > 0 {
		out.Violations = append(out.Violations, explore.SchedV{Signature: "C14/A/deadlock", Detail: strings.Join(wd, ", ")})
	}
	for _, pn := range vrt.S.Panics() {
		out.Violations = append(out.Violations, explore.SchedV{Signature: "C14/A/panic/" + vrt.PanicSite(pn), Detail: pn})
	}
	out.Canon = o1 + " | " + o2
	return out
}

func chunkSizes(c *vnet.Conn) []int {
	var s []int
	for _, ch := range c.Out {
		s = append(s, len(ch))
	}
	return s
}

// request kinds of harness B
const (
	c14KeepAlive = iota
	c14UserList
	c14Chat
	c14GetMsgs
	c14PM
	c14NumKinds
)

var c14KindNames = []string{"keepalive", "userlist", "chat", "getmsgs40k", "pm"}

func c14B(p c14Params) (out explore.SchedOutcome) {
	vrt.BeginSetup()
	units := 2560 // 40 KiB: the reply needs two Write calls
	if p.Board > 0 {
		units = p.Board
	}
	board := strings.Repeat("0123456789abcdef", units)
	w := world.New(world.Cfg{Board: board, Accounts: []world.Acct{{Login: "guest", Name: "Guest", Access: world.AllAccess}}})
	defer w.Close()
	a, ra := w.Connect("10.0.0.1:1001", "guest", "", "alice")
	if p.Wrap {
		// 65,534 connections come and go: the next id handed out is the one after the wrap
		vrt.Unmanaged(func() {
			cc := &hotline.ClientConn{}
			for i := 0; i < 65534; i++ {
				w.Srv.ClientMgr.Add(cc)
				w.Srv.ClientMgr.Delete(cc.ID)
			}
		})
	}
	b, rb := w.Connect("10.0.0.2:1002", "guest", "", "bob")
	if ra == nil || rb == nil {
		out.Violations = append(out.Violations, explore.SchedV{Signature: "C14/B/setup-login-failed", Detail: "login got no reply"})
		return out
	}
	a.New()
	b.New()
	users := w.UserList(a)
	a.New()
	ids := map[string]uint16{}
	for _, u := range users {
		ids[u.Name] = u.ID
	}
	vrt.EndSetup()

	mk := func(kind int, other string) ref.Tx {
		switch kind {
		case c14KeepAlive:
			return ref.Tx{Type: ref.TKeepAlive}
		case c14UserList:
			return ref.Tx{Type: ref.TGetUserNameList}
		case c14Chat:
			return ref.Tx{Type: ref.TChatSend, Fields: []ref.Fld{ref.FS(ref.FData, "hi")}}
		case c14GetMsgs:
			return ref.Tx{Type: ref.TGetMsgs}
		default:
			return ref.Tx{Type: ref.TSendInstantMsg, Fields: []ref.Fld{ref.F16(ref.FUserID, ids[other]), ref.FS(ref.FData, "psst"), ref.F16(ref.FOptions, 1)}}
		}
	}
	// which request kinds are answered when issued alone (established by reading the handlers: all five reply)
	type sent struct {
		id   uint32
		kind int
	}
	sentBy := map[*world.Client][]sent{}
	half := len(p.Reqs) / 2
	if p.Solo {
		half = len(p.Reqs)
	}
	plan := map[*world.Client][]int{a: p.Reqs[:half], b: p.Reqs[half:]}
	other := map[*world.Client]string{a: "bob", b: "alice"}
	for _, c := range []*world.Client{a, b} {
		c := c
		vrt.GoNamed("client-"+c.Name, func() {
			for _, k := range plan[c] {
				id := c.Send(mk(k, other[c]))
				sentBy[c] = append(sentBy[c], sent{id, k})
			}
		})
	}
	vrt.WaitQuiet()

	var obs []string
	for _, c := range []*world.Client{a, b} {
		c.Poll()
		if c.ParseErr != nil || len(c.Unparsed()) != 0 {
			out.Violations = append(out.Violations, explore.SchedV{
				Signature: "C14/B/framing/stream-not-a-concatenation-of-whole-transactions",
				Detail:    fmt.Sprintf("%s params=%s: err=%v trailing=%d chunks=%v", c.Name, p, c.ParseErr, len(c.Unparsed()), chunkSizes(c.Conn)),
			})
			continue
		}
		news := c.New()
		replies := map[uint32]int{}
		for _, t := range news {
			if t.IsReply == 1 {
				replies[t.ID]++
			}
		}
		mine := map[uint32]int{}
		for _, s := range sentBy[c] {
			mine[s.id] = s.kind
		}
		for id, n := range replies {
			if _, ok := mine[id]; !ok {
				out.Violations = append(out.Violations, explore.SchedV{Signature: "C14/B/correlation/reply-with-foreign-id",
					Detail: fmt.Sprintf("%s params=%s got reply id %x it never used", c.Name, p, id)})
			}
			if n > 1 {
				out.Violations = append(out.Violations, explore.SchedV{Signature: "C14/B/correlation/duplicate-reply/" + c14KindNames[mine[id]],
					Detail: fmt.Sprintf("%s params=%s got %d replies to id %x", c.Name, p, n, id)})
			}
		}
		for _, s := range sentBy[c] {
			if p.Solo {
				if replies[s.id] == 1 {
					obs = append(obs, "solo-answered")
				}
				continue
			}
			if replies[s.id] == 0 && c14Answered[s.kind] {
				out.Violations = append(out.Violations, explore.SchedV{Signature: "C14/B/correlation/missing-reply/" + c14KindNames[s.kind],
					Detail: fmt.Sprintf("%s params=%s request %s id %x unanswered", c.Name, p, c14KindNames[s.kind], s.id)})
			}
		}
		obs = append(obs, c.Name+":"+ref.CanonMultiset(news)+fmt.Sprint(chunkSizes(c.Conn)))
	}
	if wd := vrt.Wedged(); len(wd) > 0 {
		out.Violations = append(out.Violations, explore.SchedV{Signature: "C14/B/deadlock", Detail: strings.Join(wd, ", ")})
	}
	for _, pn := range vrt.S.Panics() {
		out.Violations = append(out.Violations, explore.SchedV{Signature: "C14/B/panic/" + vrt.PanicSite(pn), Detail: pn})
	}
	out.Canon = strings.Join(obs, " | ")
	return out
}

// Harness C (login under load): a new client logs in, and sends its first request without waiting for
// the login reply, while a logged-in user broadcasts a message of more than 32 KiB to everybody.
func c14C(p c14Params) (out explore.SchedOutcome) {
	vrt.BeginSetup()
	w := world.New(world.Cfg{Accounts: []world.Acct{{Login: "guest", Name: "Guest", Access: world.AllAccess}}})
	defer w.Close()
	a, ra := w.Connect("10.0.0.1:1001", "guest", "", "alice")
	if ra == nil {
		out.Violations = append(out.Violations, explore.SchedV{Signature: "C14/C/setup-login-failed", Detail: "login got no reply"})
		return out
	}
	a.New()
	c := w.Dial("10.0.0.3:1003")
	c.Name = "carol"
	vrt.EndSetup()

	login := world.LoginTx("guest", "", ref.FS(ref.FUserName, "carol"), ref.F16(ref.FUserIconID, 1))
	login.ID = 0x30001
	follow := ref.Tx{Type: ref.TGetUserNameList, ID: 0x30002}
	if p.Follow > 0 {
		follow = ref.Tx{Type: ref.TSendInstantMsg, ID: 0x30002, Fields: []ref.Fld{ref.F16(ref.FUserID, 1), ref.F(ref.FData, pattern(p.Follow, 3)), ref.F16(ref.FOptions, 1)}}
	}
	vrt.GoNamed("client-carol", func() {
		c.Handshake()
		if p.Joined {
			c.Conn.Feed(append(login.Encode(), follow.Encode()...))
		} else {
			c.Send(login)
			c.Send(follow)
		}
	})
	vrt.GoNamed("client-alice", func() {
		a.Send(ref.Tx{Type: ref.TUserBroadcast, Fields: []ref.Fld{ref.F(ref.FData, pattern(40000, 9))}})
	})
	vrt.WaitQuiet()

	var obs []string
	for _, cl := range []*world.Client{a, c} {
		cl.Poll()
		if cl.ParseErr != nil || len(cl.Unparsed()) != 0 {
			out.Violations = append(out.Violations, explore.SchedV{
				Signature: "C14/C/framing/stream-not-a-concatenation-of-whole-transactions",
				Detail:    fmt.Sprintf("%s params=%s: err=%v trailing=%d chunks=%v", cl.Name, p, cl.ParseErr, len(cl.Unparsed()), chunkSizes(cl.Conn)),
			})
			continue
		}
		news := cl.New()
		if cl == c {
			replies := map[uint32]int{}
			for _, t := range news {
				if t.IsReply == 1 {
					replies[t.ID]++
				}
			}
			for id, n := range replies {
				if id != login.ID && id != follow.ID {
					out.Violations = append(out.Violations, explore.SchedV{Signature: "C14/C/correlation/reply-with-foreign-id", Detail: fmt.Sprintf("carol params=%s got reply id %x it never used", p, id)})
				}
				if n > 1 {
					out.Violations = append(out.Violations, explore.SchedV{Signature: "C14/C/correlation/duplicate-reply", Detail: fmt.Sprintf("carol params=%s got %d replies to id %x", p, n, id)})
				}
			}
			if replies[login.ID] == 0 {
				out.Violations = append(out.Violations, explore.SchedV{Signature: "C14/C/correlation/missing-reply/login", Detail: fmt.Sprintf("carol params=%s", p)})
			}
			if replies[follow.ID] == 0 {
				out.Violations = append(out.Violations, explore.SchedV{Signature: "C14/C/correlation/missing-reply/request-sent-behind-the-login", Detail: fmt.Sprintf("carol params=%s: the request is answered when it is sent after the login reply arrived", p)})
			}
		}
		obs = append(obs, cl.Name+":"+ref.CanonMultiset(news)+fmt.Sprint(chunkSizes(cl.Conn)))
	}
	if wd := vrt.Wedged(); len(wd) > 0 {
		out.Violations = append(out.Violations, explore.SchedV{Signature: "C14/C/deadlock", Detail: strings.Join(wd, ", ")})
	}
	for _, pn := range vrt.S.Panics() {
		out.Violations = append(out.Violations, explore.SchedV{Signature: "C14/C/panic/" + vrt.PanicSite(pn), Detail: pn})
	}
	out.Canon = strings.Join(obs, " | ")
	return out
}

// Harness E (request about a user who leaves): alice invites carol to a new chat (or asks for her info, or sends her a
// message) while carol's connection ends.  Alone, before or after carol has gone, each request is answered; it must be
// answered, once, under every schedule, and alice stays connected.
func c14E(p c14Params) (out explore.SchedOutcome) {
	vrt.BeginSetup()
	w := world.New(world.Cfg{Accounts: []world.Acct{{Login: "guest", Name: "Guest", Access: world.AllAccess}}})
	defer w.Close()
	a, ra := w.Connect("10.0.0.1:1001", "guest", "", "alice")
	c, rc := w.Connect("10.0.0.3:1003", "guest", "", "carol")
	if ra == nil || rc == nil {
		out.Violations = append(out.Violations, explore.SchedV{Signature: "C14/E/setup-login-failed", Detail: "login got no reply"})
		return out
	}
	a.New()
	kinds := []uint16{ref.TInviteNewChat, ref.TGetClientInfoText, ref.TSendInstantMsg}
	var ids []uint32
	for _, k := range kinds {
		ids = append(ids, a.Send(ref.Tx{Type: k, Fields: []ref.Fld{ref.F16(ref.FUserID, 2), ref.FS(ref.FData, "hi"), ref.F16(ref.FOptions, 1)}}))
	}
	c.Conn.Reset()
	vrt.EndSetup()
	vrt.Settle(10 * time.Second)
	a.Poll()
	var obs []string
	for i, id := range ids {
		n := 0
		for _, t := range a.Inbox {
			if t.IsReply == 1 && t.ID == id {
				n++
			}
		}
		if n != 1 && kinds[i] != ref.TSendInstantMsg || n > 1 {
			out.Violations = append(out.Violations, explore.SchedV{Signature: fmt.Sprintf("C14/E/correlation/%d-replies/type-%d", n, kinds[i]), Detail: fmt.Sprintf("alice's request %d about user 2, who disconnects at the same moment, got %d replies (alice's connection closed: %v)", kinds[i], n, a.Conn.Closed)})
		}
		obs = append(obs, fmt.Sprint(n))
	}
	if a.Conn.Closed {
		out.Violations = append(out.Violations, explore.SchedV{Signature: "C14/E/requester-disconnected", Detail: "alice's connection was closed"})
	}
	for _, pn := range vrt.S.Panics() {
		out.Violations = append(out.Violations, explore.SchedV{Signature: "C14/E/panic/" + vrt.PanicSite(pn), Detail: pn})
	}
	out.Canon = strings.Join(obs, ",")
	return out
}

// Harness F (notice about a user who leaves): an administrator edits the account of a connected user who hangs up at
// the same moment (every session of the account is announced to everybody).  Whatever happens to that notice, a
// bystander's next request is answered, once.
func c14F(p c14Params) (out explore.SchedOutcome) {
	vrt.BeginSetup()
	w := world.New(world.Cfg{Accounts: []world.Acct{{Login: "guest", Name: "Guest", Access: world.AllAccess}, {Login: "admin", Name: "Admin", Password: "secret", Access: world.AllAccess}, {Login: "vic", Name: "Vic", Password: "vp", Access: world.Bits(ref.PReadChat)}}})
	defer w.Close()
	obs, ro := w.Connect("10.0.0.1:1001", "guest", "", "obs")
	adm, ra := w.Connect("10.0.0.2:1002", "admin", "secret", "adm")
	x, rx := w.Connect("10.0.0.3:1003", "vic", "vp", "vic")
	if ro == nil || ra == nil || rx == nil {
		out.Violations = append(out.Violations, explore.SchedV{Signature: "C14/F/setup-login-failed", Detail: "login got no reply"})
		return out
	}
	obs.New()
	acc := world.Bits(ref.PReadChat, ref.PSendChat)
	adm.Send(ref.Tx{Type: ref.TSetUser, Fields: []ref.Fld{ref.F(ref.FUserLogin, ref.Obfuscate([]byte("vic"))), ref.FS(ref.FUserName, "Vic"), ref.F(ref.FUserPassword, []byte{0}), ref.F(ref.FUserAccess, acc[:])}})
	x.Hangup()
	vrt.EndSetup()
	vrt.Settle(10 * time.Second)
	id := obs.Req(ref.TGetUserNameList)
	vrt.Settle(10 * time.Second)
	obs.Poll()
	n := 0
	for _, t := range obs.Inbox {
		if t.IsReply == 1 && t.ID == id {
			n++
		}
	}
	if n != 1 {
		out.Violations = append(out.Violations, explore.SchedV{Signature: fmt.Sprintf("C14/F/correlation/%d-replies/user-list", n), Detail: fmt.Sprintf("after an account edit overlapped the departure of one of the account's sessions, a bystander's user-list request got %d replies; blocked: %v", n, vrt.Blocked())})
	}
	if obs.ParseErr != nil || len(obs.Unparsed()) != 0 {
		out.Violations = append(out.Violations, explore.SchedV{Signature: "C14/F/framing/stream-not-a-concatenation-of-whole-transactions", Detail: fmt.Sprint(obs.ParseErr)})
	}
	for _, pn := range vrt.S.Panics() {
		out.Violations = append(out.Violations, explore.SchedV{Signature: "C14/F/panic/" + vrt.PanicSite(pn), Detail: pn})
	}
	out.Canon = fmt.Sprint(n)
	return out
}

func runC14(w *explore.Worker) {
	type job struct {
		p     c14Params
		bound int
	}
	var jobs []job
	boundA, boundB := 2, 1
	if w.Thorough {
		boundA, boundB = 3, 2
	}
	// harness A: two transactions for client 1 (+ one for client 2); sizes around the 32 KiB copy buffer
	// a harness-A transaction is 20 (header) + 2 (count) + 4+n (data field) + 4+2 (options field) = 32+n bytes:
	// n = 32768-32+d puts its end d bytes after the copy buffer's 32 KiB boundary
	sizes := []int{22, 300, 32768 - 32 - 1, 32768 - 32, 32768 - 32 + 1, 32768 - 32 + 2, 32768 - 32 + 3, 65535}
	pairs := [][]int{{65535, 22}, {22, 65535}, {32768 - 32 + 1, 300}, {32768 - 32 + 2, 300}, {32768 - 32, 300}, {32768 - 32 + 3, 22}, {300, 22}, {65535, 40000}}
	if w.Thorough {
		pairs = nil
		for _, x := range sizes {
			for _, y := range sizes {
				pairs = append(pairs, []int{x, y})
			}
		}
	}
	for _, pr := range pairs {
		jobs = append(jobs, job{c14Params{Harness: "A", Sizes: pr}, boundA})
	}
	jobs = append(jobs, job{c14Params{Harness: "A", Sizes: []int{65535, 300, 22}}, boundA - 1})
	// what handlers can be made to build: a field of more than 65,535 bytes, more than 65,535 fields
	jobs = append(jobs, job{c14Params{Harness: "A", Sizes: []int{65536, 22}}, 0}, job{c14Params{Harness: "A", Sizes: []int{70000, 300}}, 0}, job{c14Params{Harness: "A", Sizes: []int{5, 22}, Fields: 65536}, 0})
	// harness B: two clients x two requests
	bp := [][]int{{c14GetMsgs, c14Chat, c14Chat, c14UserList}, {c14PM, c14KeepAlive, c14GetMsgs, c14PM}, {c14Chat, c14GetMsgs, c14KeepAlive, c14Chat}}
	if w.Thorough {
		bp = nil
		for x := 0; x < c14NumKinds; x++ {
			for y := 0; y < c14NumKinds; y++ {
				bp = append(bp, []int{x, c14Chat, y, c14GetMsgs}, []int{c14GetMsgs, x, c14PM, y})
			}
		}
	}
	for _, r := range bp {
		jobs = append(jobs, job{c14Params{Harness: "B", Reqs: r}, boundB})
	}
	jobs = append(jobs, job{c14Params{Harness: "B", Reqs: []int{c14KeepAlive, c14UserList, c14PM, c14KeepAlive}, Wrap: true}, 0})
	// a message board that has outgrown the 65,535 bytes one field can carry (a state reachable by posting)
	jobs = append(jobs, job{c14Params{Harness: "B", Reqs: []int{c14GetMsgs, c14KeepAlive, c14UserList, c14GetMsgs}, Board: 4400}, 0})
	// harness C: login under load
	for _, f := range []int{0, 6000} {
		for _, j := range []bool{false, true} {
			b := boundB
			if f == 0 && j {
				b++ // the smallest configuration is explored one deviation deeper
			}
			jobs = append(jobs, job{c14Params{Harness: "C", Follow: f, Joined: j}, b})
		}
	}
	// harness D: login while the account is deleted
	jobs = append(jobs, job{c14Params{Harness: "D"}, boundB})
	// harness E: requests about a user who leaves at the same moment
	jobs = append(jobs, job{c14Params{Harness: "E"}, boundB})
	// harness F: a notice about a user who leaves at the same moment
	jobs = append(jobs, job{c14Params{Harness: "F"}, boundB})
	maxBound := 0
	c14Baseline(w)
	for _, j := range jobs {
		cfg := explore.SchedConfig{Harness: "C14" + j.p.Harness, Params: j.p.String(), Bound: j.bound, FreeCost: 1, MaxSteps: 20000, Suspend: true}
		body := c14Body(j.p)
		if w.Index == 0 {
			explore.DeterminismGuard(w, cfg.Harness+cfg.Params, nil, cfg.MaxSteps, body)
		}
		explore.ExploreSchedules(w, cfg, body)
		if j.bound > maxBound {
			maxBound = j.bound
		}
	}
	w.Max("deviation_bound_completed", maxBound)
	w.Count("harness_configurations", 0)
	if w.Index == 0 {
		w.Count("harness_configurations", len(jobs))
	}
}

func replayC14(w *explore.Worker, raw json.RawMessage) {
	var r explore.SchedReplay
	if err := json.Unmarshal(raw, &r); err != nil {
		w.Broken("bad replay: %v", err)
		return
	}
	var p c14Params
	if err := json.Unmarshal([]byte(r.Params), &p); err != nil {
		w.Broken("bad replay params: %v", err)
		return
	}
	body := c14Body(p)
	c14Baseline(w)
	for i := 0; i < 2; i++ { // twice: the same schedule must fail every time
		_, out, err := explore.RunSchedule(r.Choices, 20000, body)
		if err != nil {
			w.Broken("replay: %v", err)
			return
		}
		for _, v := range out.Violations {
			w.Violation(v.Signature, v.Detail, 0, r)
		}
		if os.Getenv("VERIF_SHOW_CANON") != "" {
			fmt.Fprintf(os.Stderr, "canon: %s\n", out.Canon)
		}
	}
}
