package props

import (
	"bytes"
	"encoding/binary"
	"encoding/json"
	"fmt"
	"os"
	"path/filepath"
	"strings"
	"time"

	"github.com/jhalter/mobius/verifh/explore"
	"github.com/jhalter/mobius/verifh/ref"
	"github.com/jhalter/mobius/verifh/world"
)

// C07: all filesystem effects stay inside the file root / the accounts directory.

func init() {
	register(&Prop{
		ID:    "C07",
		Level: "exploration",
		Rule: "bounded-exhaustive input enumeration in a canary sandbox on the real control and transfer paths: every placement of up to 2 (thorough 3) hostile components from a 23-element alphabet ('..', '.', '', '/', '//', '../canary.txt', '..//..', " +
			"'a/../../canary.txt', '/abs', NUL forms, 255 x 'A', ':', '\\\\..', Mac-Roman high bytes, 'Uploads/..', '.info_x', '../Users/zz-canary.txt', ...) into the path items, names, new names and new paths of every file-touching request " +
			"(list, info, comment, rename, delete, move, new folder, alias, download, upload, folder download, folder upload incl. item paths on the transfer stream), raw path fields with disagreeing count/length prefixes, and account logins " +
			"(create, batched create/rename, set, delete, get) by an all-privileges user; distinct = distinct (request kind, observation) pairs",
		Assumptions: []string{"the file root itself counts as inside; fork side-files of the root live next to it and count as outside"},
		Run:            runC07,
		Replay:         replayC07,
		MinOutcomes:    10,
		QuickBudget:    180 * time.Second,
		ThoroughBudget: 25 * time.Minute,
	})
}

const c07Marker = "CANARY-7f3a"

var c07Hostile = []string{
	"..", ".", "", "/", "//", "../canary.txt", "..//..", "a/../../canary.txt", "/abs", "..\x00", "x\x00/..",
	strings.Repeat("A", 255), ":", "\\..", "\x80\xff\xd0", "Uploads/..", ".info_x", "../Users/zz-canary.txt", "../../canary.txt", "../.info_Files", "...", "../ThreadedNews", "../Agreement.txt",
}

type c07Case struct {
	Kind  string   `json:"kind"`
	Slots []string `json:"slots"` // values of the request's component slots ("\x01" = benign default)
	Raw   []byte   `json:"raw"`   // kind rawpath: the raw path field
	Own   bool     `json:"own"`   // the requester's account has its own file root (configured with a trailing slash)
	Gone  bool     `json:"gone,omitempty"` // the requester's own file root does not exist (yet, or any more)
	Uni   bool     `json:"uni"`   // the requester's own file root has a name that is not ASCII ("Rööt")
}

const benign = "\x01"

// slot layout per kind: which components a request has
var c07Kinds = map[string][]string{
	"list":       {"p1", "p2"},
	"info":       {"p1", "p2", "name"},
	"comment":    {"p1", "p2", "name"},
	"rename":     {"p1", "name", "newname"},
	"renamedir":  {"p1", "name", "newname"},
	"delete":     {"p1", "p2", "name"},
	"move":       {"p1", "name", "np1", "np2"},
	"newfolder":  {"p1", "p2", "name"},
	"alias":      {"p1", "name", "np1", "np2"},
	"download":   {"p1", "p2", "name"},
	"upload":     {"p1", "p2", "name"},
	"folderdown": {"p1", "p2", "name"},
	"folderup":   {"p1", "name", "seg1", "seg2"},
	"acctnew":    {"login"},
	"acctbatch":  {"login"},
	"acctrename": {"login"},
	"acctset":    {"login"},
	"acctdelete": {"login"},
	"acctget":    {"login"},
}

var c07KindOrder = []string{"list", "info", "comment", "rename", "renamedir", "delete", "move", "newfolder", "alias", "download", "upload", "folderdown", "folderup",
	"acctnew", "acctbatch", "acctrename", "acctset", "acctdelete", "acctget"}

func c07Files(root string) {
	_ = os.WriteFile(filepath.Join(root, "a.txt"), []byte("0123456789"), 0644)
	_ = os.MkdirAll(filepath.Join(root, "dir", "deep"), 0755)
	_ = os.WriteFile(filepath.Join(root, "dir", "inner.txt"), []byte("inner"), 0644)
	_ = os.WriteFile(filepath.Join(root, "dir", "deep", "leaf.txt"), []byte("leaf"), 0644)
	_ = os.MkdirAll(filepath.Join(root, "Uploads"), 0755)
	_ = os.MkdirAll(filepath.Join(root, "other"), 0755)
	cfg := filepath.Dir(root)
	sb := filepath.Dir(cfg)
	_ = os.WriteFile(filepath.Join(sb, "canary.txt"), []byte(c07Marker+" outside the sandbox config"), 0644)
	_ = os.MkdirAll(filepath.Join(sb, "canarydir"), 0755)
	_ = os.WriteFile(filepath.Join(sb, "canarydir", "deep.txt"), []byte(c07Marker), 0644)
	_ = os.WriteFile(filepath.Join(cfg, "canary-config.txt"), []byte(c07Marker+" next to the file root"), 0644)
	_ = os.WriteFile(filepath.Join(cfg, ".info_Files"), []byte(c07Marker+" info fork name of the root"), 0644)
	_ = os.WriteFile(filepath.Join(cfg, ".rsrc_Files"), []byte(c07Marker+" rsrc fork name of the root"), 0644)
	_ = os.WriteFile(filepath.Join(cfg, "Files.incomplete"), []byte(c07Marker+" partial name of the root"), 0644)
	_ = os.WriteFile(filepath.Join(cfg, "Users", "zz-canary.txt"), []byte(c07Marker+" inside the accounts directory"), 0644)
	// the private file root of account r, with the same tree and its own sibling fork names
	rr := filepath.Join(cfg, "Rroot")
	_ = os.MkdirAll(filepath.Join(rr, "dir", "deep"), 0755)
	_ = os.WriteFile(filepath.Join(rr, "a.txt"), []byte("0123456789"), 0644)
	_ = os.WriteFile(filepath.Join(rr, "dir", "inner.txt"), []byte("inner"), 0644)
	_ = os.WriteFile(filepath.Join(rr, "dir", "deep", "leaf.txt"), []byte("leaf"), 0644)
	_ = os.MkdirAll(filepath.Join(rr, "Uploads"), 0755)
	_ = os.MkdirAll(filepath.Join(rr, "other"), 0755)
	_ = os.WriteFile(filepath.Join(cfg, ".info_Rroot"), []byte(c07Marker+" info fork name of r's root"), 0644)
	_ = os.WriteFile(filepath.Join(cfg, ".rsrc_Rroot"), []byte(c07Marker+" rsrc fork name of r's root"), 0644)
	_ = os.WriteFile(filepath.Join(cfg, "Rroot.incomplete"), []byte(c07Marker+" partial name of r's root"), 0644)
	// the private file root of account n: a directory name that is not ASCII
	nr := filepath.Join(cfg, "Rööt")
	_ = os.MkdirAll(filepath.Join(nr, "dir", "deep"), 0755)
	_ = os.WriteFile(filepath.Join(nr, "a.txt"), []byte("0123456789"), 0644)
	_ = os.WriteFile(filepath.Join(nr, "dir", "inner.txt"), []byte("inner"), 0644)
	_ = os.WriteFile(filepath.Join(nr, "dir", "deep", "leaf.txt"), []byte("leaf"), 0644)
	_ = os.MkdirAll(filepath.Join(nr, "Uploads"), 0755)
	_ = os.MkdirAll(filepath.Join(nr, "other"), 0755)
}

// c07Outside: snapshot of the sandbox without the file root's contents and without the accounts
// directory's direct children (whose legitimate changes are checked separately).
func c07Outside(wd *world.World, rootName string) (outside []string, users []string) {
	for _, l := range world.SnapshotDir(wd.Dir) {
		switch {
		case strings.HasPrefix(l, "config/"+rootName+"/"):
		case strings.HasPrefix(l, "config/"+rootName+" D"), strings.HasPrefix(l, "config/"+rootName+" F"), strings.HasPrefix(l, "config/"+rootName+" L"):
			outside = append(outside, "config/"+rootName+" <root itself>")
		case strings.HasPrefix(l, "config/Users/"):
			users = append(users, l)
		default:
			outside = append(outside, l)
		}
	}
	return
}


func c07Run(w *explore.Worker, c c07Case) {
	slots := c07Kinds[c.Kind]
	val := func(name, def string) string {
		for i, s := range slots {
			if s == name && i < len(c.Slots) && c.Slots[i] != benign {
				return c.Slots[i]
			}
		}
		return def
	}
	hostilePos := []string{}
	for i, s := range slots {
		if i < len(c.Slots) && c.Slots[i] != benign {
			hostilePos = append(hostilePos, s)
		}
	}
	fail := func(clause, detail string) {
		own := ""
		if c.Own {
			own = "own-root/"
		}
		if c.Uni {
			own = "non-ascii-root/"
		}
		if c.Gone {
			own = "missing-root/"
		}
		w.Violation("C07/"+own+c.Kind+"/"+clause+"/pos="+strings.Join(hostilePos, "+"), fmt.Sprintf("case %s: %s", js(c), detail), len(hostilePos)*100+len(js(c)), c)
	}
	seqChecked(w, "C07", c.Kind, c, func() {
		wd := world.New(world.Cfg{
			PreserveForks: true,
			Files:         c07Files,
			Accounts: []world.Acct{{Login: "guest", Name: "Guest"}, {Login: "u", Name: "u", Password: "pw", Access: world.AllAccess},
				{Login: "r", Name: "r", Password: "pw", Access: world.AllAccess, FileRoot: "$CONFIG/Rroot/"},
				{Login: "n", Name: "n", Password: "pw", Access: world.AllAccess, FileRoot: "$CONFIG/Rööt"},
				{Login: "g", Name: "g", Password: "pw", Access: world.AllAccess, FileRoot: "$CONFIG/Gone"},
				{Login: "vic", Name: "Victim", Password: "vp", Access: world.Bits(ref.PReadChat)}},
		})
		defer wd.Close()
		login, rootName := "u", "Files"
		if c.Own {
			login, rootName = "r", "Rroot"
		}
		if c.Uni {
			login, rootName = "n", "Rööt"
		}
		if c.Gone {
			login, rootName = "g", "Gone"
		}
		u, r := wd.Connect("10.0.0.1:1001", login, "pw", "u")
		if r == nil || r.Err != 0 {
			w.Broken("C07: login failed")
			return
		}
		before, usersBefore := c07Outside(wd, rootName)
		u.New()

		// path with up to two items: default is the root (no items) for p1/p2
		mkPath := func(a, b string) []byte {
			var items []string
			if v := val(a, benign); v != benign {
				items = append(items, v)
			}
			if v := val(b, benign); v != benign {
				items = append(items, v)
			}
			if len(items) == 0 {
				return nil
			}
			return ref.PathBytes(items...)
		}
		pathFld := func(id uint16, b []byte) []ref.Fld {
			if b == nil {
				return nil
			}
			return []ref.Fld{ref.F(id, b)}
		}
		var replies []*ref.Tx
		var xferOut [][]byte
		send := func(t ref.Tx) *ref.Tx {
			id := u.Send(t)
			world.Settle(5 * time.Second)
			rp := u.Reply(id)
			replies = append(replies, rp)
			return rp
		}
		transfer := func(rep *ref.Tx, payload func(refnum []byte) []byte) {
			if rep == nil || rep.Err != 0 {
				return
			}
			refnum, ok := rep.Get(ref.FRefNum)
			if !ok || len(refnum) != 4 {
				return
			}
			conn := wd.DialTransfer("10.0.0.1:2001")
			conn.Feed(payload(refnum))
			world.Settle(15 * time.Second)
			xferOut = append(xferOut, conn.All())
		}
		name := val("name", "a.txt")
		switch c.Kind {
		case "list":
			send(ref.Tx{Type: ref.TGetFileNameList, Fields: pathFld(ref.FFilePath, mkPath("p1", "p2"))})
		case "info":
			send(ref.Tx{Type: ref.TGetFileInfo, Fields: append(pathFld(ref.FFilePath, mkPath("p1", "p2")), ref.FS(ref.FFileName, name))})
		case "comment":
			send(ref.Tx{Type: ref.TSetFileInfo, Fields: append(pathFld(ref.FFilePath, mkPath("p1", "p2")), ref.FS(ref.FFileName, name), ref.FS(ref.FFileComment, "owned"))})
		case "rename":
			send(ref.Tx{Type: ref.TSetFileInfo, Fields: append(pathFld(ref.FFilePath, mkPath("p1", "")), ref.FS(ref.FFileName, name), ref.FS(ref.FFileNewName, val("newname", "b.txt")))})
		case "renamedir":
			send(ref.Tx{Type: ref.TSetFileInfo, Fields: append(pathFld(ref.FFilePath, mkPath("p1", "")), ref.FS(ref.FFileName, val("name", "dir")), ref.FS(ref.FFileNewName, val("newname", "dir2")))})
		case "delete":
			send(ref.Tx{Type: ref.TDeleteFile, Fields: append(pathFld(ref.FFilePath, mkPath("p1", "p2")), ref.FS(ref.FFileName, name))})
		case "move":
			np := mkPath("np1", "np2")
			if np == nil {
				np = ref.PathBytes("other")
			}
			send(ref.Tx{Type: ref.TMoveFile, Fields: append(pathFld(ref.FFilePath, mkPath("p1", "")), ref.FS(ref.FFileName, name), ref.F(ref.FFileNewPath, np))})
		case "newfolder":
			send(ref.Tx{Type: ref.TNewFolder, Fields: append(pathFld(ref.FFilePath, mkPath("p1", "p2")), ref.FS(ref.FFileName, val("name", "made")))})
		case "alias":
			np := mkPath("np1", "np2")
			if np == nil {
				np = ref.PathBytes("other")
			}
			send(ref.Tx{Type: ref.TMakeFileAlias, Fields: append(pathFld(ref.FFilePath, mkPath("p1", "")), ref.FS(ref.FFileName, name), ref.F(ref.FFileNewPath, np))})
		case "download":
			rep := send(ref.Tx{Type: ref.TDownloadFile, Fields: append(pathFld(ref.FFilePath, mkPath("p1", "p2")), ref.FS(ref.FFileName, name))})
			transfer(rep, func(rn []byte) []byte { return ref.Preamble(rn, 0) })
		case "upload":
			rep := send(ref.Tx{Type: ref.TUploadFile, Fields: append(pathFld(ref.FFilePath, mkPath("p1", "p2")), ref.FS(ref.FFileName, val("name", "new.bin")), ref.F32(ref.FTransferSize, 200))})
			transfer(rep, func(rn []byte) []byte {
				return append(ref.Preamble(rn, 0), ref.FlatFile(ref.NewInfoFork("new.bin", "BINA", "hDmp", "c"), []byte("uploaded-bytes"), []byte("rsrc"))...)
			})
		case "folderdown":
			rep := send(ref.Tx{Type: ref.TDownloadFldr, Fields: append(pathFld(ref.FFilePath, mkPath("p1", "p2")), ref.FS(ref.FFileName, val("name", "dir")))})
			transfer(rep, func(rn []byte) []byte {
				b := append(ref.Preamble(rn, 0), 0, 3)
				for i := 0; i < 12; i++ { // ask for every file, then next
					b = append(b, 0, 1, 0, 3)
				}
				return b
			})
		case "folderup":
			rep := send(ref.Tx{Type: ref.TUploadFldr, Fields: append(pathFld(ref.FFilePath, mkPath("p1", "")), ref.FS(ref.FFileName, val("name", "updir")), ref.F32(ref.FTransferSize, 20), ref.F16(ref.FFolderItemCount, 2))})
			transfer(rep, func(rn []byte) []byte {
				b := ref.Preamble(rn, 0)
				b = append(b, ref.ItemHeader(true, val("seg1", "sub"))...)
				ff := ref.FlatFile(ref.NewInfoFork("f", "TEXT", "ttxt", ""), []byte("folder-upload-bytes"), nil)
				b = append(b, ref.ItemHeader(false, val("seg1", "sub"), val("seg2", "f.txt"))...)
				b = append(b, binary.BigEndian.AppendUint32(nil, uint32(len(ff)))...)
				return append(b, ff...)
			})
		case "rawpath":
			send(ref.Tx{Type: ref.TGetFileNameList, Fields: []ref.Fld{ref.F(ref.FFilePath, c.Raw)}})
			send(ref.Tx{Type: ref.TDeleteFile, Fields: []ref.Fld{ref.F(ref.FFilePath, c.Raw), ref.FS(ref.FFileName, "a.txt")}})
			send(ref.Tx{Type: ref.TNewFolder, Fields: []ref.Fld{ref.F(ref.FFilePath, c.Raw), ref.FS(ref.FFileName, "made")}})
		case "acctnew":
			send(ref.Tx{Type: ref.TNewUser, Fields: []ref.Fld{ref.F(ref.FUserLogin, obf(val("login", "nu"))), ref.FS(ref.FUserName, "N"), ref.F(ref.FUserPassword, obf("p")), ref.F(ref.FUserAccess, make([]byte, 8))}})
		case "acctbatch":
			send(ref.Tx{Type: ref.TUpdateUser, Fields: []ref.Fld{ref.F(ref.FData, subFields(ref.F(ref.FUserLogin, obf(val("login", "nu"))), ref.FS(ref.FUserName, "N"), ref.F(ref.FUserPassword, obf("p")), ref.F(ref.FUserAccess, make([]byte, 8))))}})
		case "acctrename":
			send(ref.Tx{Type: ref.TUpdateUser, Fields: []ref.Fld{ref.F(ref.FData, subFields(ref.F(ref.FData, obf("vic")), ref.F(ref.FUserLogin, obf(val("login", "vic2"))), ref.FS(ref.FUserName, "V"), ref.F(ref.FUserPassword, []byte{0}), ref.F(ref.FUserAccess, make([]byte, 8))))}})
			// ... and a second rename of whatever it is called now, and a set-user on it (two cooperating requests)
			send(ref.Tx{Type: ref.TUpdateUser, Fields: []ref.Fld{ref.F(ref.FData, subFields(ref.F(ref.FData, obf(val("login", "vic2"))), ref.F(ref.FUserLogin, obf("vic3")), ref.FS(ref.FUserName, "V"), ref.F(ref.FUserPassword, []byte{0}), ref.F(ref.FUserAccess, make([]byte, 8))))}})
		case "acctset":
			// create an account under the hostile login first, then modify it
			send(ref.Tx{Type: ref.TNewUser, Fields: []ref.Fld{ref.F(ref.FUserLogin, obf(val("login", "nu"))), ref.FS(ref.FUserName, "N"), ref.F(ref.FUserPassword, obf("p")), ref.F(ref.FUserAccess, make([]byte, 8))}})
			send(ref.Tx{Type: ref.TSetUser, Fields: []ref.Fld{ref.F(ref.FUserLogin, obf(val("login", "nu"))), ref.FS(ref.FUserName, "changed"), ref.F(ref.FUserPassword, []byte{0}), ref.F(ref.FUserAccess, make([]byte, 8))}})
			// ... and delete it again (the login now names an account: the delete is carried out)
			send(ref.Tx{Type: ref.TDeleteUser, Fields: []ref.Fld{ref.F(ref.FUserLogin, obf(val("login", "nu")))}})
		case "acctdelete":
			send(ref.Tx{Type: ref.TDeleteUser, Fields: []ref.Fld{ref.F(ref.FUserLogin, obf(val("login", "vic")))}})
			send(ref.Tx{Type: ref.TUpdateUser, Fields: []ref.Fld{ref.F(ref.FData, subFields(ref.F(ref.FData, obf(val("login", "vic")))))}})
		case "acctget":
			send(ref.Tx{Type: ref.TGetUser, Fields: []ref.Fld{ref.FS(ref.FUserLogin, val("login", "vic"))}})
		}
		after, usersAfter := c07Outside(wd, rootName)
		if c.Gone {
			// the root itself counts as inside: a request may create the missing root as a directory
			if st, err := os.Lstat(filepath.Join(wd.ConfigDir, rootName)); err == nil && st.IsDir() {
				var kept []string
				for _, l := range after {
					if l != "config/"+rootName+" <root itself>" {
						kept = append(kept, l)
					}
				}
				after = kept
			}
		}
		if strings.Join(before, "\n") != strings.Join(after, "\n") {
			fail("outside-root-changed", diffLines(strings.Join(before, "\n"), strings.Join(after, "\n")))
		}
		for _, l := range usersAfter {
			rest := strings.TrimPrefix(strings.SplitN(l, " ", 2)[0], "config/Users/")
			if strings.Contains(rest, "/") {
				fail("account-directory-entry-not-a-direct-child", l)
			}
		}
		_ = usersBefore
		for _, rp := range replies {
			if rp == nil {
				continue
			}
			for _, f := range rp.Fields {
				// contents of outside files anywhere; names of outside entries in listing entries (an error text that
				// echoes the client's own request bytes is not a disclosure)
				if bytes.Contains(f.Data, []byte(c07Marker)) || (f.ID == ref.FFileNameWithInfo && (bytes.Contains(f.Data, []byte("canary")) || bytes.Contains(f.Data, []byte("Agreement")) || bytes.Contains(f.Data, []byte(".yaml")))) {
					fail("outside-data-disclosed-in-reply", fmt.Sprintf("field %d: %q", f.ID, clipb(f.Data, 200)))
				}
			}
		}
		for _, x := range xferOut {
			if bytes.Contains(x, []byte(c07Marker)) {
				fail("outside-data-disclosed-on-transfer-connection", fmt.Sprintf("%d bytes", len(x)))
			}
		}
		var rc []string
		for _, rp := range replies {
			if rp == nil {
				rc = append(rc, "none")
			} else {
				rc = append(rc, fmt.Sprintf("e%d", rp.Err))
			}
		}
		w.Outcome(fmt.Sprintf("%s %v changed=%v", c.Kind, rc, strings.Join(before, "\n") != strings.Join(after, "\n")))
	})
}

func clipb(b []byte, n int) []byte {
	if len(b) > n {
		return b[:n]
	}
	return b
}

func c07Cases(thorough bool) []c07Case {
	var cs []c07Case
	for _, kind := range c07KindOrder {
		slots := c07Kinds[kind]
		n := len(slots)
		base := make([]string, n)
		for i := range base {
			base[i] = benign
		}
		cs = append(cs, c07Case{Kind: kind, Slots: append([]string(nil), base...)})
		for i := 0; i < n; i++ {
			for _, h := range c07Hostile {
				s := append([]string(nil), base...)
				s[i] = h
				cs = append(cs, c07Case{Kind: kind, Slots: s})
			}
		}
		for i := 0; i < n; i++ {
			for j := i + 1; j < n; j++ {
				for _, h1 := range c07Hostile {
					for _, h2 := range c07Hostile {
						s := append([]string(nil), base...)
						s[i], s[j] = h1, h2
						cs = append(cs, c07Case{Kind: kind, Slots: s})
					}
				}
			}
		}
		if thorough && n >= 3 {
			short := []string{"..", "", "/", "../canary.txt", "a/../../canary.txt", "Uploads/..", "../../canary.txt", "."}
			for _, h1 := range short {
				for _, h2 := range short {
					for _, h3 := range short {
						s := append([]string(nil), base...)
						s[0], s[1], s[2] = h1, h2, h3
						cs = append(cs, c07Case{Kind: kind, Slots: s})
					}
				}
			}
		}
	}
	// the same requests by an account with its own file root: benign form and every single hostile component
	for _, kind := range c07KindOrder {
		if strings.HasPrefix(kind, "acct") {
			continue
		}
		slots := c07Kinds[kind]
		base := make([]string, len(slots))
		for i := range base {
			base[i] = benign
		}
		cs = append(cs, c07Case{Kind: kind, Slots: append([]string(nil), base...), Own: true})
		for i := range slots {
			for _, h := range c07Hostile {
				sl := append([]string(nil), base...)
				sl[i] = h
				cs = append(cs, c07Case{Kind: kind, Slots: sl, Own: true})
			}
		}
	}
	// the same for an account whose file root has a non-ASCII name: benign form, the empty name and ".."
	for _, kind := range c07KindOrder {
		if strings.HasPrefix(kind, "acct") {
			continue
		}
		slots := c07Kinds[kind]
		base := make([]string, len(slots))
		for i := range base {
			base[i] = benign
		}
		cs = append(cs, c07Case{Kind: kind, Slots: append([]string(nil), base...), Uni: true})
		for i := range slots {
			for _, h := range []string{"", "..", "../canary.txt"} {
				sl := append([]string(nil), base...)
				sl[i] = h
				cs = append(cs, c07Case{Kind: kind, Slots: sl, Uni: true})
			}
		}
	}
	// and for an account whose file root does not exist: requests aimed at the root itself work next to it
	for _, kind := range c07KindOrder {
		if strings.HasPrefix(kind, "acct") {
			continue
		}
		slots := c07Kinds[kind]
		base := make([]string, len(slots))
		for i := range base {
			base[i] = benign
		}
		cs = append(cs, c07Case{Kind: kind, Slots: append([]string(nil), base...), Gone: true})
		for i := range slots {
			for _, h := range []string{"", ".", ".."} {
				sl := append([]string(nil), base...)
				sl[i] = h
				cs = append(cs, c07Case{Kind: kind, Slots: sl, Gone: true})
			}
		}
	}
	// raw path fields whose count/length prefixes disagree with the bytes
	raws := [][]byte{
		{}, {0}, {0, 1}, {0, 1, 0, 0}, {0, 1, 0, 0, 5, '.', '.'}, {0, 2, 0, 0, 2, '.', '.'}, {0, 1, 0, 0, 2, '.', '.', 0, 0, 2, '.', '.'},
		{0xff, 0xff, 0, 0, 2, '.', '.'}, {0, 3, 0, 0, 2, '.', '.', 0, 0, 2, '.', '.', 0, 0, 10, 'c', 'a', 'n', 'a', 'r', 'y', '.', 't', 'x', 't'},
		{0, 1, 0, 0, 0}, {0, 1, 0, 0, 255, 'x'}, append([]byte{0, 1, 0, 0, 3}, "../"...), append([]byte{0, 2, 0, 0, 3, 'd', 'i', 'r', 0, 0, 5}, "../.."...),
	}
	for _, r := range raws {
		cs = append(cs, c07Case{Kind: "rawpath", Raw: r})
	}
	return cs
}

func runC07(w *explore.Worker) {
	cs := c07Cases(w.Thorough)
	for i, c := range cs {
		if !w.Next() {
			continue
		}
		if w.Expired() {
			w.Cap("time budget reached")
			return
		}
		w.Eval()
		c07Run(w, c)
		if i%4001 == 0 {
			w.Sample(map[string]interface{}{"kind": c.Kind, "slots": c07Kinds[c.Kind], "values": fmt.Sprintf("%q", c.Slots)})
		}
	}
	if w.Index == 0 {
		w.Count("cases", len(cs))
	}
}

func replayC07(w *explore.Worker, raw json.RawMessage) {
	var c c07Case
	if err := json.Unmarshal(raw, &c); err != nil {
		w.Broken("bad replay: %v", err)
		return
	}
	c07Run(w, c)
}
