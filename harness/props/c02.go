package props

import (
	"encoding/binary"
	"encoding/json"
	"fmt"
	"os"
	"path/filepath"
	"sort"
	"strconv"
	"strings"
	"time"

	"github.com/jhalter/mobius/verifh/explore"
	"github.com/jhalter/mobius/verifh/ref"
	"github.com/jhalter/mobius/verifh/vrt"
	"github.com/jhalter/mobius/verifh/world"
)

// C02: segmentation-independent parsing of client byte streams.

func init() {
	register(&Prop{
		ID:    "C02",
		Level: "model_checking",
		Rule: "E-ENV deviation-bounded environment exploration on the real connection and transfer loops: for five session kinds (control session incl. a 5000-byte line, file upload, folder upload, file download, folder download) the client's byte stream " +
			"is delivered unsplit, with every single cut, with every pair of cuts (quick: pairs within the first 96 bytes and around structural boundaries), and in fixed pieces of 1,2,3,5,7,11,13,16 bytes; " +
			"each delivery is one execution whose normalised observation (transactions received, transfer bytes, directory snapshot, user list) must equal the unsplit run's; a state = (session, segmentation), a transition = one read segment. " +
			"Schedules: a pipelined session of non-commuting requests (new/delete user, new/delete folder, two comments) delivered in one or two segments must give the default schedule's replies, accounts and tree under every schedule with at most 1 (thorough 2) deviations (E-SCHED); two overlapping uploads with the first preamble split around the second connection's preamble",
		Assumptions: []string{"default schedule (the property's schedule quantifier is over TCP segmentations, which are enumerated); sessions are fixed well-formed scripts"},
		Run:            runC02,
		Replay:         replayC02,
		MinOutcomes:    5,
		QuickBudget:    180 * time.Second,
		ThoroughBudget: 25 * time.Minute,
	})
}

type c02Case struct {
	Session string `json:"session"`
	Cuts    []int  `json:"cuts"`
	Chunk   int    `json:"chunk"` // >0: fixed-size pieces
}

func c02Feed(conn interface {
	FeedSplit([]byte, []int)
	FeedChunks([]byte, int)
}, stream []byte, c c02Case) {
	if c.Chunk > 0 {
		conn.FeedChunks(stream, c.Chunk)
		return
	}
	conn.FeedSplit(stream, c.Cuts)
}

var c02Tree = []c10Entry{{Path: "a", Size: 5}, {Path: "sub", Dir: true}, {Path: "sub/x", Size: 1}}

// c02Stream builds the client byte stream of a session (refnum is the transfer reference number).
func c02Stream(session string, refnum []byte) []byte {
	if strings.HasPrefix(session, "pad:") {
		// pipelined control session whose third transaction header starts at a chosen offset of the
		// scanner's 4096-byte buffer: login, a chat line of L bytes, then small requests
		var L int
		fmt.Sscanf(session, "pad:%d", &L)
		b := append([]byte(nil), ref.Handshake()...)
		lt := world.LoginTx("u", "pw", ref.FS(ref.FUserName, "uu"), ref.F16(ref.FUserIconID, 3))
		lt.ID = 1
		b = append(b, lt.Encode()...)
		b = append(b, ref.Tx{Type: ref.TChatSend, ID: 2, Fields: []ref.Fld{ref.FS(ref.FData, strings.Repeat("p", L))}}.Encode()...)
		b = append(b, ref.Tx{Type: ref.TKeepAlive, ID: 3}.Encode()...)
		b = append(b, ref.Tx{Type: ref.TGetUserNameList, ID: 4}.Encode()...)
		b = append(b, ref.Tx{Type: ref.TChatSend, ID: 5, Fields: []ref.Fld{ref.FS(ref.FData, "end")}}.Encode()...)
		return b
	}
	switch session {
	case "control":
		var b []byte
		b = append(b, ref.Handshake()...)
		add := func(t ref.Tx) { b = append(b, t.Encode()...) }
		lt := world.LoginTx("u", "pw", ref.FS(ref.FUserName, "uu"), ref.F16(ref.FUserIconID, 3))
		lt.ID = 1
		add(lt)
		add(ref.Tx{Type: ref.TGetUserNameList, ID: 2})
		add(ref.Tx{Type: ref.TChatSend, ID: 3, Fields: []ref.Fld{ref.FS(ref.FData, "hello")}})
		add(ref.Tx{Type: ref.TSetClientUserInfo, ID: 4, Fields: []ref.Fld{ref.FS(ref.FUserName, "renamed"), ref.F16(ref.FUserIconID, 9)}})
		add(ref.Tx{Type: ref.TNewFolder, ID: 5, Fields: []ref.Fld{ref.FS(ref.FFileName, "made")}})
		add(ref.Tx{Type: ref.TGetFileNameList, ID: 6})
		add(ref.Tx{Type: ref.TChatSend, ID: 7, Fields: []ref.Fld{ref.FS(ref.FData, strings.Repeat("L", 5000))}})
		add(ref.Tx{Type: ref.TKeepAlive, ID: 8})
		add(ref.Tx{Type: ref.TGetUserNameList, ID: 9})
		return b
	case "upload":
		info := ref.NewInfoFork("up.bin", "BINA", "hDmp", "cmt")
		return append(ref.Preamble(refnum, 0), ref.FlatFile(info, c08Data(40), c08Rsrc())...)
	case "folderupload":
		b := ref.Preamble(refnum, 0)
		for _, e := range c02Tree {
			b = append(b, ref.ItemHeader(e.Dir, strings.Split(e.Path, "/")...)...)
			if !e.Dir {
				ff := ref.FlatFile(ref.NewInfoFork(filepath.Base(e.Path), "TEXT", "ttxt", ""), c10Data(e.Path, e.Size), nil)
				b = append(b, binary.BigEndian.AppendUint32(nil, uint32(len(ff)))...)
				b = append(b, ff...)
			}
		}
		return b
	case "download":
		return ref.Preamble(refnum, 0)
	case "folderdownload":
		b := append(ref.Preamble(refnum, 0), 0, 3)
		// items: a (file: send, then next), sub (folder: next), sub/x (file: resume at 0, then next)
		b = append(b, 0, 1, 0, 3)
		b = append(b, 0, 3)
		rd := ref.ResumeData(0, nil)
		b = append(b, 0, 2, byte(len(rd)>>8), byte(len(rd)))
		b = append(b, rd...)
		b = append(b, 0, 3)
		return b
	}
	panic(session)
}

func c02Observe(w *explore.Worker, c c02Case) (obs string, ok bool) {
	seqChecked(w, "C02", c.Session, c, func() {
		wd := world.New(world.Cfg{
			PreserveForks: true,
			Accounts:      []world.Acct{{Login: "guest", Name: "Guest"}, {Login: "u", Name: "u", Password: "pw", Access: world.AllAccess}},
			Files: func(root string) {
				_ = os.MkdirAll(filepath.Join(root, "Uploads"), 0755)
				_ = os.WriteFile(filepath.Join(root, "f.txt"), c08Data(70), 0644)
				c10Populate(filepath.Join(root, "root"), c02Tree)
			},
		})
		defer wd.Close()
		var sb strings.Builder
		if c.Session == "control" || strings.HasPrefix(c.Session, "pad:") {
			u := wd.Dial("10.0.0.1:1001")
			c02Feed(u.Conn, c02Stream(c.Session, nil), c)
			world.Settle(10 * time.Second)
			u.Poll()
			fmt.Fprintf(&sb, "greeting=%x parse=%v stray=%d closed=%v\n%s\n", u.Greeting, u.ParseErr, len(u.Unparsed()), u.Conn.Closed, canonTxs(u.Inbox))
		} else {
			u, r := wd.Connect("10.0.0.1:1001", "u", "pw", "u")
			if r == nil || r.Err != 0 {
				w.Broken("C02: login failed")
				return
			}
			var id uint32
			switch c.Session {
			case "upload":
				id = u.Req(ref.TUploadFile, ref.FS(ref.FFileName, "up.bin"), ref.F(ref.FFilePath, ref.PathBytes("Uploads")), ref.F32(ref.FTransferSize, 300))
			case "folderupload":
				id = u.Req(ref.TUploadFldr, ref.FS(ref.FFileName, "updir"), ref.F(ref.FFilePath, ref.PathBytes("Uploads")), ref.F32(ref.FTransferSize, 6), ref.F16(ref.FFolderItemCount, 3))
			case "download":
				id = u.Req(ref.TDownloadFile, ref.FS(ref.FFileName, "f.txt"))
			case "folderdownload":
				id = u.Req(ref.TDownloadFldr, ref.FS(ref.FFileName, "root"))
			}
			world.Quiet()
			rep := u.Reply(id)
			if rep == nil || rep.Err != 0 {
				w.Broken("C02: transfer request refused: %v", rep)
				return
			}
			refnum, _ := rep.Get(ref.FRefNum)
			conn := wd.DialTransfer("10.0.0.1:2001")
			c02Feed(conn, c02Stream(c.Session, refnum), c)
			world.Settle(15 * time.Second)
			out := conn.All()
			fmt.Fprintf(&sb, "transfer-bytes=%d hash=%x closed=%v\n", len(out), explore.Hash(string(out)), conn.Closed)
		}
		for _, l := range world.SnapshotDir(wd.FileRoot) {
			sb.WriteString(l + "\n")
		}
		obs, ok = sb.String(), true
	})
	return
}

var c02Baseline = map[string]string{}

func c02Run(w *explore.Worker, c c02Case) {
	base, have := c02Baseline[c.Session]
	if !have {
		b, ok := c02Observe(w, c02Case{Session: c.Session})
		if !ok {
			return
		}
		base = b
		c02Baseline[c.Session] = b
	}
	obs, ok := c02Observe(w, c)
	if !ok {
		return
	}
	w.AddStates(1)
	w.AddTransitions(len(c.Cuts) + 1)
	if obs != base {
		stream := c02Stream(c.Session, []byte{0, 0, 0, 0})
		where := "fixed pieces"
		if c.Chunk == 0 && len(c.Cuts) > 0 {
			where = c02Region(c.Session, c.Cuts[0], len(stream))
		}
		sess := c.Session
		if strings.HasPrefix(sess, "pad:") {
			sess = "control-pipelined"
		}
		w.Violation("C02/"+sess+"/observation-depends-on-segmentation/"+where,
			fmt.Sprintf("session %s delivered with cuts %v / pieces of %d: observation differs from the unsplit run\n--- split\n%s--- unsplit\n%s", c.Session, c.Cuts, c.Chunk, clip(obs, 1500), clip(base, 1500)), len(c.Cuts)+c.Chunk, c)
	}
	w.Outcome(c.Session + "|" + fmt.Sprint(explore.Hash(obs)))
}

func c02Region(session string, cut, n int) string {
	if strings.HasPrefix(session, "pad:") {
		return "pipelined-session-around-the-scanner-buffer-end"
	}
	switch {
	case session == "control" && cut < 12:
		return "inside-handshake"
	case session == "control":
		return "inside-transactions"
	case cut < 16:
		return "inside-transfer-preamble"
	default:
		return "inside-transfer-payload"
	}
}

func c02Cases(thorough bool) []c02Case {
	var cs []c02Case
	for _, s := range []string{"control", "upload", "folderupload", "download", "folderdownload"} {
		n := len(c02Stream(s, []byte{0, 0, 0, 0}))
		for k := 1; k < n; k++ {
			if s == "control" && k > 400 && k < n-400 && k%97 != 0 && !(k%4096 < 3 || k%4096 > 4093) {
				if !thorough {
					continue // inside the 5000-byte line: every 97th offset and around multiples of 4096
				}
			}
			cs = append(cs, c02Case{Session: s, Cuts: []int{k}})
		}
		lim := 96
		if thorough {
			lim = n
			if lim > 420 {
				lim = 420
			}
		}
		for a := 1; a < lim && a < n; a++ {
			for b := a + 1; b < lim && b < n; b++ {
				cs = append(cs, c02Case{Session: s, Cuts: []int{a, b}})
			}
		}
		for _, ch := range []int{1, 2, 3, 5, 7, 11, 13, 16} {
			cs = append(cs, c02Case{Session: s, Chunk: ch})
		}
	}
	// pipelined control sessions: every position of a transaction header relative to the end of the scanner's
	// initial 4096-byte buffer (the baseline is the byte-at-a-time delivery of the same session)
	base := len(c02Stream("pad:0", nil)) - 12 - len(ref.Tx{Type: ref.TKeepAlive, ID: 3}.Encode()) - len(ref.Tx{Type: ref.TGetUserNameList, ID: 4}.Encode()) - len(ref.Tx{Type: ref.TChatSend, ID: 5, Fields: []ref.Fld{ref.FS(ref.FData, "end")}}.Encode())
	for off := 4096 - 40; off <= 4096+8; off++ {
		L := off - base
		if L < 0 {
			continue
		}
		s := fmt.Sprintf("pad:%d", L)
		cs = append(cs, c02Case{Session: s, Chunk: 1 << 20}, c02Case{Session: s, Chunk: 1000}, c02Case{Session: s, Chunk: 4096}, c02Case{Session: s, Cuts: []int{12}}, c02Case{Session: s, Chunk: 1})
	}
	return cs
}

// ---- schedules: the same coalesced stream under every schedule ----

// c02OrderStream: one client's requests that do not commute, sent without waiting for replies.
func c02OrderStream() []byte {
	b := append([]byte(nil), ref.Handshake()...)
	add := func(t ref.Tx) { b = append(b, t.Encode()...) }
	lt := world.LoginTx("u", "pw", ref.FS(ref.FUserName, "uu"), ref.F16(ref.FUserIconID, 3))
	lt.ID = 1
	add(lt)
	add(ref.Tx{Type: ref.TNewUser, ID: 2, Fields: []ref.Fld{ref.F(ref.FUserLogin, obf("bob")), ref.FS(ref.FUserName, "Bob"), ref.F(ref.FUserPassword, obf("p")), ref.F(ref.FUserAccess, make([]byte, 8))}})
	add(ref.Tx{Type: ref.TDeleteUser, ID: 3, Fields: []ref.Fld{ref.F(ref.FUserLogin, obf("bob"))}})
	add(ref.Tx{Type: ref.TNewFolder, ID: 4, Fields: []ref.Fld{ref.FS(ref.FFileName, "nf")}})
	add(ref.Tx{Type: ref.TDeleteFile, ID: 5, Fields: []ref.Fld{ref.FS(ref.FFileName, "nf")}})
	add(ref.Tx{Type: ref.TSetFileInfo, ID: 6, Fields: []ref.Fld{ref.FS(ref.FFileName, "f.txt"), ref.FS(ref.FFileComment, "first")}})
	add(ref.Tx{Type: ref.TSetFileInfo, ID: 7, Fields: []ref.Fld{ref.FS(ref.FFileName, "f.txt"), ref.FS(ref.FFileComment, "second")}})
	return b
}

var c02OrderBase string

// c02Order: the stream of c02OrderStream arrives in one segment (cut>0: in two); under every schedule the
// replies, the accounts and the file tree are those of the default schedule.
func c02Order(cut int) func() explore.SchedOutcome {
	return func() (out explore.SchedOutcome) {
		vrt.BeginSetup()
		wd := world.New(world.Cfg{
			PreserveForks: true,
			Accounts:      []world.Acct{{Login: "guest", Name: "Guest"}, {Login: "u", Name: "u", Password: "pw", Access: world.AllAccess}},
			Files: func(root string) {
				_ = os.WriteFile(filepath.Join(root, "f.txt"), c08Data(70), 0644)
			},
		})
		defer wd.Close()
		u := wd.Dial("10.0.0.1:1001")
		vrt.EndSetup()
		stream := c02OrderStream()
		if cut > 0 {
			u.Conn.FeedSplit(stream, []int{cut})
		} else {
			u.Conn.Feed(stream)
		}
		vrt.Settle(10 * time.Second)
		u.Poll()
		var sb strings.Builder
		fmt.Fprintf(&sb, "greeting=%x parse=%v stray=%d\n%s\n", u.Greeting, u.ParseErr, len(u.Unparsed()), canonTxs(u.Inbox))
		var logins []string
		for _, a := range wd.Srv.AccountManager.List() {
			logins = append(logins, a.Login)
		}
		sort.Strings(logins)
		fmt.Fprintf(&sb, "accounts=%v\n", logins)
		for _, l := range world.SnapshotDir(wd.FileRoot) {
			sb.WriteString(l + "\n")
		}
		out.Canon = sb.String()
		if c02OrderBase != "" && out.Canon != c02OrderBase {
			out.Violations = append(out.Violations, explore.SchedV{Signature: "C02/control-pipelined/observation-depends-on-the-schedule",
				Detail: fmt.Sprintf("NewUser bob, DeleteUser bob, NewFolder nf, DeleteFile nf, comment first, comment second sent behind the login in one piece (cut %d): replies, accounts and tree differ from the default schedule's\n--- this schedule\n%s--- default schedule\n%s", cut, clip(out.Canon, 1500), clip(c02OrderBase, 1500))})
		}
		for _, p := range vrt.S.Panics() {
			out.Violations = append(out.Violations, explore.SchedV{Signature: "C02/control-pipelined/panic/" + vrt.PanicSite(p), Detail: p})
		}
		return out
	}
}

// c02TwoTransfers: two uploads whose transfer connections are open at the same time; the first one's
// preamble arrives in two segments with the whole preamble of the second in between.
func c02TwoTransfers(w *explore.Worker) {
	run := func(split bool) (obs string, ok bool) {
		c := c02Case{Session: "two-transfers", Cuts: map[bool][]int{true: {8}, false: nil}[split]}
		seqChecked(w, "C02", c.Session, c, func() {
			wd := world.New(world.Cfg{Accounts: []world.Acct{{Login: "guest", Name: "Guest"}, {Login: "u", Name: "u", Password: "pw", Access: world.AllAccess}},
				Files: func(root string) { _ = os.MkdirAll(filepath.Join(root, "Uploads"), 0755) }})
			defer wd.Close()
			u, r := wd.Connect("10.0.0.1:1001", "u", "pw", "u")
			if r == nil || r.Err != 0 {
				w.Broken("C02: login failed")
				return
			}
			var refs [2][]byte
			for i, name := range []string{"a.bin", "b.bin"} {
				id := u.Req(ref.TUploadFile, ref.FS(ref.FFileName, name), ref.F(ref.FFilePath, ref.PathBytes("Uploads")), ref.F32(ref.FTransferSize, 300))
				world.Quiet()
				rep := u.Reply(id)
				if rep == nil || rep.Err != 0 {
					w.Broken("C02: upload request refused: %v", rep)
					return
				}
				refs[i], _ = rep.Get(ref.FRefNum)
			}
			sa := append(ref.Preamble(refs[0], 0), ref.FlatFile(ref.NewInfoFork("a.bin", "BINA", "hDmp", ""), c08Data(40), nil)...)
			sb2 := append(ref.Preamble(refs[1], 0), ref.FlatFile(ref.NewInfoFork("b.bin", "BINA", "hDmp", ""), c08Data(55), nil)...)
			ca, cb := wd.DialTransfer("10.0.0.1:2001"), wd.DialTransfer("10.0.0.1:2002")
			if split {
				ca.Feed(sa[:8])
				world.Settle(time.Second)
				cb.Feed(sb2)
				world.Settle(time.Second)
				ca.Feed(sa[8:])
			} else {
				ca.Feed(sa)
				world.Settle(time.Second)
				cb.Feed(sb2)
			}
			world.Settle(15 * time.Second)
			var sb strings.Builder
			for _, l := range world.SnapshotDir(wd.FileRoot) {
				sb.WriteString(l + "\n")
			}
			obs, ok = sb.String(), true
		})
		return
	}
	whole, ok1 := run(false)
	split, ok2 := run(true)
	w.Eval()
	if ok1 && ok2 && whole != split {
		w.Violation("C02/two-transfers/observation-depends-on-segmentation/inside-transfer-preamble", fmt.Sprintf("two uploads, the first preamble cut after 8 bytes with the second connection's preamble arriving in between:\n--- split\n%s--- whole\n%s", clip(split, 1200), clip(whole, 1200)), 1, c02Case{Session: "two-transfers", Cuts: []int{8}})
	}
	w.Outcome("two-transfers|" + fmt.Sprint(explore.Hash(split)))
}

func runC02(w *explore.Worker) {
	if w.Mine(0) {
		c02TwoTransfers(w)
	}
	bound := 1
	if w.Thorough {
		bound = 2
	}
	for _, cut := range []int{0, 100} {
		if _, out, err := explore.RunSchedule(nil, 50000, func() explore.SchedOutcome { c02OrderBase = ""; return c02Order(cut)() }); err != nil {
			w.Broken("C02 order baseline: %v", err)
		} else {
			c02OrderBase = out.Canon
		}
		explore.ExploreSchedules(w, explore.SchedConfig{Harness: "C02order", Params: fmt.Sprint(cut), Bound: bound, FreeCost: 1, MaxSteps: 50000, Suspend: true}, c02Order(cut))
	}
	cs := c02Cases(w.Thorough)
	for i, c := range cs {
		if !w.Next() {
			continue
		}
		if w.Expired() {
			w.Cap("time budget reached")
			return
		}
		w.Eval()
		c02Run(w, c)
		if i%2003 == 0 {
			w.Sample(c)
		}
	}
	if w.Index == 0 {
		w.Count("segmentations", len(cs))
	}
}

func replayC02(w *explore.Worker, raw json.RawMessage) {
	var sr explore.SchedReplay
	if json.Unmarshal(raw, &sr) == nil && sr.Kind == "schedule" {
		cut, _ := strconv.Atoi(sr.Params)
		c02OrderBase = ""
		if _, out, err := explore.RunSchedule(nil, 50000, c02Order(cut)); err == nil {
			c02OrderBase = out.Canon
		}
		_, out, err := explore.RunSchedule(sr.Choices, 50000, c02Order(cut))
		if err != nil {
			w.Broken("replay: %v", err)
		}
		for _, v := range out.Violations {
			w.Violation(v.Signature, v.Detail, 0, sr)
		}
		return
	}
	var c c02Case
	if err := json.Unmarshal(raw, &c); err != nil {
		w.Broken("bad replay: %v", err)
		return
	}
	if c.Session == "two-transfers" {
		c02TwoTransfers(w)
		return
	}
	c02Run(w, c)
}
