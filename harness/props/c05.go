package props

import (
	"encoding/json"
	"fmt"
	"github.com/jhalter/mobius/internal/mobius"
	"github.com/jhalter/mobius/verifh/vrt"
	"os"
	"path/filepath"
	"sort"
	"strings"
	"time"

	"github.com/jhalter/mobius/verifh/explore"
	"github.com/jhalter/mobius/verifh/ref"
	"github.com/jhalter/mobius/verifh/world"
)

// C05: every privileged effect requires the governing privilege.

func init() {
	register(&Prop{
		ID:    "C05",
		Level: "exploration",
		Rule: "bounded-exhaustive configuration enumeration on the real connection loop: each request kind (one per transaction type and target kind that selects a different privilege) x requester bitmap in " +
			"{empty, all, each single bit, each all-but-one, and all four combinations for two-privilege effects}; fresh world per run with an observer client; distinct = distinct (kind, bitmap, observation)",
		Assumptions:    []string{"privilege table in props/c05.go + ref/priv.go written from the protocol's description of each effect", "bitmaps differing from empty/all in more than two bits are not enumerated"},
		Run:            runC05,
		Replay:         replayC05,
		MinOutcomes:    50,
		QuickBudget:    120 * time.Second,
		ThoroughBudget: 20 * time.Minute,
	})
}

const c05News = `Categories:
  Bun:
    Type: [0, 2]
    Name: Bun
    Articles: {}
    SubCats:
      Inner:
        Type: [0, 3]
        Name: Inner
        Articles: {}
        SubCats: {}
      InnerBun:
        Type: [0, 2]
        Name: InnerBun
        Articles: {}
        SubCats: {}
  Cat:
    Type: [0, 3]
    Name: Cat
    Articles:
      1:
        Title: first
        Poster: someone
        Date: [7, 232, 0, 0, 0, 0, 0, 1]
        PrevArt: [0, 0, 0, 0]
        NextArt: [0, 0, 0, 0]
        ParentArt: [0, 0, 0, 0]
        FirstChildArtArt: [0, 0, 0, 0]
        Data: secret article body
    SubCats: {}
`

func c05Files(root string) {
	must := func(err error) {
		if err != nil {
			panic(err)
		}
	}
	must(os.WriteFile(filepath.Join(root, "f.txt"), []byte("0123456789"), 0644))
	must(os.MkdirAll(filepath.Join(root, "dir"), 0755))
	must(os.WriteFile(filepath.Join(root, "dir", "inner.txt"), []byte("inner"), 0644))
	must(os.MkdirAll(filepath.Join(root, "other"), 0755))
	must(os.WriteFile(filepath.Join(root, "other", "inner.txt"), []byte("other-inner"), 0644))
	must(os.MkdirAll(filepath.Join(root, "Uploads"), 0755))
	must(os.MkdirAll(filepath.Join(root, "Drop Box"), 0755))
	must(os.WriteFile(filepath.Join(root, "Drop Box", "secret.txt"), []byte("dropped"), 0644))
	must(os.MkdirAll(filepath.Join(root, "Drop Box", "inner"), 0755))
	must(os.WriteFile(filepath.Join(root, "Drop Box", "inner", "deep-secret.txt"), []byte("dropped deeper"), 0644))
	must(os.MkdirAll(filepath.Join(root, "Uploads", "sub"), 0755))
	must(os.MkdirAll(filepath.Join(root, "holder", "team drop box"), 0755))
	must(os.WriteFile(filepath.Join(root, "holder", "team drop box", "s.txt"), []byte("dropped too"), 0644))
	// entries whose stored information fork claims the other kind: the governing privilege follows
	// what the entry *is* in the file tree, not what client-supplied metadata says
	must(os.WriteFile(filepath.Join(root, "odd.txt"), []byte("odd"), 0644))
	must(os.WriteFile(filepath.Join(root, ".info_odd.txt"), ref.NewInfoFork("odd.txt", "fldr", "n/a ", "").Encode(), 0644))
	must(os.MkdirAll(filepath.Join(root, "oddir"), 0755))
	must(os.WriteFile(filepath.Join(root, ".info_oddir"), ref.NewInfoFork("oddir", "TEXT", "ttxt", "").Encode(), 0644))
	// aliases: the governing privilege follows what the alias points to
	must(os.WriteFile(filepath.Join(root, "t.txt"), []byte("target"), 0644))
	must(os.MkdirAll(filepath.Join(root, "tdir"), 0755))
	must(os.Symlink(filepath.Join(root, "t.txt"), filepath.Join(root, "t-alias")))
	must(os.Symlink(filepath.Join(root, "tdir"), filepath.Join(root, "tdir-alias")))
}

type c05Ctx struct {
	obsID, tgtID, uID uint16
}

type c05Kind struct {
	Name  string
	G     []int // privileges that must all be held
	Build func(x c05Ctx) ref.Tx
	// Secret: a string that must not appear in the requester's reply when the privilege is missing
	Secret string
}

// c05Never: per kind, a state that must not be reached by a requester with the given bitmap whatever the
// reply says (effects the differential comparison cannot see because the fully privileged run has them too).
var c05Never = map[string]func(wd *world.World, bits [8]byte) string{
	// a "rename" whose new name contains a path separator is a move: without the move privilege the entry
	// stays in its folder
	"rename-folder-new-name-with-separator": func(wd *world.World, bits [8]byte) string {
		root := wd.FileRoot
		if _, err := os.Stat(filepath.Join(root, "other", "dir2")); err == nil && !ref.BitSet(bits, ref.PMoveFolder) {
			return "the folder 'dir' is now 'other/dir2' although the requester may not move folders"
		}
		return ""
	},
	"rename-file-new-name-with-separator": func(wd *world.World, bits [8]byte) string {
		root := wd.FileRoot
		if _, err := os.Stat(filepath.Join(root, "other", "g.txt")); err == nil && !ref.BitSet(bits, ref.PMoveFile) {
			return "the file 'f.txt' is now 'other/g.txt' although the requester may not move files"
		}
		return ""
	},
}

func init() {
	// a rename or move onto a name that is taken makes the entry that had the name cease to exist: that is the
	// delete privilege's effect
	c05Never["rename-file-onto-existing-file"] = func(wd *world.World, bits [8]byte) string {
		if b, _ := os.ReadFile(filepath.Join(wd.FileRoot, "t.txt")); string(b) != "target" && !ref.BitSet(bits, ref.PDeleteFile) {
			return fmt.Sprintf("t.txt now holds %q: the file that had the name is gone although the requester may not delete files", b)
		}
		return ""
	}
	c05Never["move-file-onto-existing-file"] = func(wd *world.World, bits [8]byte) string {
		if b, _ := os.ReadFile(filepath.Join(wd.FileRoot, "other", "inner.txt")); string(b) != "other-inner" && !ref.BitSet(bits, ref.PDeleteFile) {
			return fmt.Sprintf("other/inner.txt now holds %q: the file that had the name is gone although the requester may not delete files", b)
		}
		return ""
	}
	c05Never["batch-rename-onto-existing-account-file"] = func(wd *world.World, bits [8]byte) string {
		if ref.BitSet(bits, ref.PDeleteUser) {
			return ""
		}
		m2, err := mobius.NewYAMLAccountManager(wd.UsersDir)
		if err != nil {
			return fmt.Sprintf("the accounts directory does not load any more: %v", err)
		}
		if a := m2.Get("guest"); a == nil || a.Name != "Guest" {
			return fmt.Sprintf("a server restarted from the files has 'guest' = %+v: the account's file was replaced although the requester may not delete accounts", a)
		}
		return ""
	}
	c05Never["batch-modify-self-then-other"] = func(wd *world.World, bits [8]byte) string {
		u, vic := wd.Srv.AccountManager.Get("u"), wd.Srv.AccountManager.Get("vic")
		if u == nil || vic == nil {
			return ""
		}
		if (u.Name == "uu2") != (vic.Name == "Changed") {
			return fmt.Sprintf("the request was carried out in part: the requester's own account was edited=%v, the other account was edited=%v", u.Name == "uu2", vic.Name == "Changed")
		}
		return ""
	}
	c05Never["batch-rename-onto-existing-login"] = func(wd *world.World, bits [8]byte) string {
		if a := wd.Srv.AccountManager.Get("guest"); (a == nil || a.Name != "Guest") && !ref.BitSet(bits, ref.PDeleteUser) {
			return fmt.Sprintf("the account 'guest' is now %+v: the account that had the login is gone although the requester may not delete accounts", a)
		}
		return ""
	}
}

func obf(s string) []byte { return ref.Obfuscate([]byte(s)) }

var c05Kinds = []c05Kind{
	{"chat-send", []int{ref.PSendChat}, func(x c05Ctx) ref.Tx {
		return ref.Tx{Type: ref.TChatSend, Fields: []ref.Fld{ref.FS(ref.FData, "hello")}}
	}, ""},
	{"chat-send-emote", []int{ref.PSendChat}, func(x c05Ctx) ref.Tx {
		return ref.Tx{Type: ref.TChatSend, Fields: []ref.Fld{ref.FS(ref.FData, "waves"), ref.F16(ref.FChatOptions, 1)}}
	}, ""},
	{"private-message", []int{ref.PSendPrivMsg}, func(x c05Ctx) ref.Tx {
		return ref.Tx{Type: ref.TSendInstantMsg, Fields: []ref.Fld{ref.F16(ref.FUserID, x.obsID), ref.FS(ref.FData, "psst"), ref.F16(ref.FOptions, 1)}}
	}, ""},
	{"invite-new-chat", []int{ref.POpenChat}, func(x c05Ctx) ref.Tx {
		return ref.Tx{Type: ref.TInviteNewChat, Fields: []ref.Fld{ref.F16(ref.FUserID, x.obsID)}}
	}, ""},
	{"invite-to-chat", []int{ref.POpenChat}, func(x c05Ctx) ref.Tx {
		return ref.Tx{Type: ref.TInviteToChat, Fields: []ref.Fld{ref.F16(ref.FUserID, x.obsID), ref.F32(ref.FChatID, 77)}}
	}, ""},
	{"broadcast", []int{ref.PBroadcast}, func(x c05Ctx) ref.Tx {
		return ref.Tx{Type: ref.TUserBroadcast, Fields: []ref.Fld{ref.FS(ref.FData, "attention")}}
	}, ""},
	{"get-client-info", []int{ref.PGetClientInfo}, func(x c05Ctx) ref.Tx {
		return ref.Tx{Type: ref.TGetClientInfoText, Fields: []ref.Fld{ref.F16(ref.FUserID, x.obsID)}}
	}, "10.0.0.3"},
	{"disconnect-user", []int{ref.PDisconUser}, func(x c05Ctx) ref.Tx {
		return ref.Tx{Type: ref.TDisconnectUser, Fields: []ref.Fld{ref.F16(ref.FUserID, x.tgtID)}}
	}, ""},
	{"disconnect-user-ban", []int{ref.PDisconUser}, func(x c05Ctx) ref.Tx {
		return ref.Tx{Type: ref.TDisconnectUser, Fields: []ref.Fld{ref.F16(ref.FUserID, x.tgtID), ref.F16(ref.FOptions, 2)}}
	}, ""},
	{"get-messages", []int{ref.PNewsReadArt}, func(x c05Ctx) ref.Tx { return ref.Tx{Type: ref.TGetMsgs} }, "board-secret"},
	{"post-message-board", []int{ref.PNewsPostArt}, func(x c05Ctx) ref.Tx {
		return ref.Tx{Type: ref.TOldPostNews, Fields: []ref.Fld{ref.FS(ref.FData, "a post")}}
	}, ""},
	{"news-list-categories", []int{ref.PNewsReadArt}, func(x c05Ctx) ref.Tx { return ref.Tx{Type: ref.TGetNewsCatList} }, "Cat"},
	{"news-list-articles", []int{ref.PNewsReadArt}, func(x c05Ctx) ref.Tx {
		return ref.Tx{Type: ref.TGetNewsArtList, Fields: []ref.Fld{ref.F(ref.FNewsPath, ref.NewsPathBytes("Cat"))}}
	}, "first"},
	{"news-get-article", []int{ref.PNewsReadArt}, func(x c05Ctx) ref.Tx {
		return ref.Tx{Type: ref.TGetNewsArtData, Fields: []ref.Fld{ref.F(ref.FNewsPath, ref.NewsPathBytes("Cat")), ref.F32(ref.FNewsArtID, 1), ref.FS(ref.FNewsArtDataFlav, "text/plain")}}
	}, "secret article body"},
	{"news-post-article", []int{ref.PNewsPostArt}, func(x c05Ctx) ref.Tx {
		return ref.Tx{Type: ref.TPostNewsArt, Fields: []ref.Fld{ref.F(ref.FNewsPath, ref.NewsPathBytes("Cat")), ref.F32(ref.FNewsArtID, 0), ref.FS(ref.FNewsArtTitle, "t2"), ref.FS(ref.FNewsArtDataFlav, "text/plain"), ref.FS(ref.FNewsArtData, "b2")}}
	}, ""},
	{"news-delete-article", []int{ref.PNewsDeleteArt}, func(x c05Ctx) ref.Tx {
		return ref.Tx{Type: ref.TDelNewsArt, Fields: []ref.Fld{ref.F(ref.FNewsPath, ref.NewsPathBytes("Cat")), ref.F32(ref.FNewsArtID, 1)}}
	}, ""},
	{"news-delete-category", []int{ref.PNewsDeleteCat}, func(x c05Ctx) ref.Tx {
		return ref.Tx{Type: ref.TDelNewsItem, Fields: []ref.Fld{ref.F(ref.FNewsPath, ref.NewsPathBytes("Cat"))}}
	}, ""},
	{"news-delete-bundle", []int{ref.PNewsDeleteFldr}, func(x c05Ctx) ref.Tx {
		return ref.Tx{Type: ref.TDelNewsItem, Fields: []ref.Fld{ref.F(ref.FNewsPath, ref.NewsPathBytes("Bun"))}}
	}, ""},
	{"news-delete-nested-category", []int{ref.PNewsDeleteCat}, func(x c05Ctx) ref.Tx {
		return ref.Tx{Type: ref.TDelNewsItem, Fields: []ref.Fld{ref.F(ref.FNewsPath, ref.NewsPathBytes("Bun", "Inner"))}}
	}, ""},
	{"news-delete-nested-bundle", []int{ref.PNewsDeleteFldr}, func(x c05Ctx) ref.Tx {
		return ref.Tx{Type: ref.TDelNewsItem, Fields: []ref.Fld{ref.F(ref.FNewsPath, ref.NewsPathBytes("Bun", "InnerBun"))}}
	}, ""},
	{"news-post-article-nested", []int{ref.PNewsPostArt}, func(x c05Ctx) ref.Tx {
		return ref.Tx{Type: ref.TPostNewsArt, Fields: []ref.Fld{ref.F(ref.FNewsPath, ref.NewsPathBytes("Bun", "Inner")), ref.F32(ref.FNewsArtID, 0), ref.FS(ref.FNewsArtTitle, "t2"), ref.FS(ref.FNewsArtDataFlav, "text/plain"), ref.FS(ref.FNewsArtData, "b2")}}
	}, ""},
	{"news-create-category-nested", []int{ref.PNewsCreateCat}, func(x c05Ctx) ref.Tx {
		return ref.Tx{Type: ref.TNewNewsCat, Fields: []ref.Fld{ref.FS(ref.FNewsCatName, "NewInner"), ref.F(ref.FNewsPath, ref.NewsPathBytes("Bun"))}}
	}, ""},
	{"news-create-bundle", []int{ref.PNewsCreateFldr}, func(x c05Ctx) ref.Tx {
		return ref.Tx{Type: ref.TNewNewsFldr, Fields: []ref.Fld{ref.FS(ref.FFileName, "NewBun")}}
	}, ""},
	{"news-create-category", []int{ref.PNewsCreateCat}, func(x c05Ctx) ref.Tx {
		return ref.Tx{Type: ref.TNewNewsCat, Fields: []ref.Fld{ref.FS(ref.FNewsCatName, "NewCat")}}
	}, ""},
	{"account-create", []int{ref.PCreateUser}, func(x c05Ctx) ref.Tx {
		return ref.Tx{Type: ref.TNewUser, Fields: []ref.Fld{ref.F(ref.FUserLogin, obf("nu")), ref.FS(ref.FUserName, "N"), ref.F(ref.FUserPassword, obf("p")), ref.F(ref.FUserAccess, make([]byte, 8))}}
	}, ""},
	{"account-delete", []int{ref.PDeleteUser}, func(x c05Ctx) ref.Tx {
		return ref.Tx{Type: ref.TDeleteUser, Fields: []ref.Fld{ref.F(ref.FUserLogin, obf("vic"))}}
	}, ""},
	{"account-read", []int{ref.POpenUser}, func(x c05Ctx) ref.Tx {
		return ref.Tx{Type: ref.TGetUser, Fields: []ref.Fld{ref.FS(ref.FUserLogin, "vic")}}
	}, "Victim"},
	{"account-list", []int{ref.POpenUser}, func(x c05Ctx) ref.Tx { return ref.Tx{Type: ref.TListUsers} }, "Victim"},
	{"account-modify", []int{ref.PModifyUser}, func(x c05Ctx) ref.Tx {
		return ref.Tx{Type: ref.TSetUser, Fields: []ref.Fld{ref.F(ref.FUserLogin, obf("vic")), ref.FS(ref.FUserName, "Changed"), ref.F(ref.FUserPassword, []byte{0}), ref.F(ref.FUserAccess, make([]byte, 8))}}
	}, ""},
	{"batch-create", []int{ref.PCreateUser}, func(x c05Ctx) ref.Tx {
		return ref.Tx{Type: ref.TUpdateUser, Fields: []ref.Fld{ref.F(ref.FData, subFields(ref.F(ref.FUserLogin, obf("nu")), ref.FS(ref.FUserName, "N"), ref.F(ref.FUserPassword, obf("p")), ref.F(ref.FUserAccess, make([]byte, 8))))}}
	}, ""},
	{"batch-modify", []int{ref.PModifyUser}, func(x c05Ctx) ref.Tx {
		return ref.Tx{Type: ref.TUpdateUser, Fields: []ref.Fld{ref.F(ref.FData, subFields(ref.F(ref.FUserLogin, obf("vic")), ref.FS(ref.FUserName, "Changed"), ref.F(ref.FUserPassword, []byte{0}), ref.F(ref.FUserAccess, make([]byte, 8))))}}
	}, ""},
	{"batch-rename", []int{ref.PModifyUser}, func(x c05Ctx) ref.Tx {
		return ref.Tx{Type: ref.TUpdateUser, Fields: []ref.Fld{ref.F(ref.FData, subFields(ref.F(ref.FData, obf("vic")), ref.F(ref.FUserLogin, obf("vic2")), ref.FS(ref.FUserName, "Victim"), ref.F(ref.FUserPassword, []byte{0}), ref.F(ref.FUserAccess, make([]byte, 8))))}}
	}, ""},
	// one request, two entries governed by different privileges: refused as a whole or carried out as a whole
	{"batch-create-then-delete", []int{ref.PCreateUser, ref.PDeleteUser}, func(x c05Ctx) ref.Tx {
		return ref.Tx{Type: ref.TUpdateUser, Fields: []ref.Fld{
			ref.F(ref.FData, subFields(ref.F(ref.FUserLogin, obf("nu")), ref.FS(ref.FUserName, "N"), ref.F(ref.FUserPassword, obf("p")), ref.F(ref.FUserAccess, make([]byte, 8)))),
			ref.F(ref.FData, subFields(ref.F(ref.FData, obf("vic"))))}}
	}, ""},
	{"batch-delete-then-create", []int{ref.PCreateUser, ref.PDeleteUser}, func(x c05Ctx) ref.Tx {
		return ref.Tx{Type: ref.TUpdateUser, Fields: []ref.Fld{
			ref.F(ref.FData, subFields(ref.F(ref.FData, obf("vic")))),
			ref.F(ref.FData, subFields(ref.F(ref.FUserLogin, obf("nu")), ref.FS(ref.FUserName, "N"), ref.F(ref.FUserPassword, obf("p")), ref.F(ref.FUserAccess, make([]byte, 8))))}}
	}, ""},
	{"batch-modify-then-delete", []int{ref.PModifyUser, ref.PDeleteUser}, func(x c05Ctx) ref.Tx {
		return ref.Tx{Type: ref.TUpdateUser, Fields: []ref.Fld{
			ref.F(ref.FData, subFields(ref.F(ref.FUserLogin, obf("vic")), ref.FS(ref.FUserName, "Changed"), ref.F(ref.FUserPassword, []byte{0}), ref.F(ref.FUserAccess, make([]byte, 8)))),
			ref.F(ref.FData, subFields(ref.F(ref.FData, obf("guest"))))}}
	}, ""},
	// the second entry is about the account the first one creates / removes: which privilege it needs depends on the first
	{"batch-create-then-modify-it", []int{ref.PCreateUser, ref.PModifyUser}, func(x c05Ctx) ref.Tx {
		return ref.Tx{Type: ref.TUpdateUser, Fields: []ref.Fld{
			ref.F(ref.FData, subFields(ref.F(ref.FUserLogin, obf("nu")), ref.FS(ref.FUserName, "N"), ref.F(ref.FUserPassword, obf("p")), ref.F(ref.FUserAccess, make([]byte, 8)))),
			ref.F(ref.FData, subFields(ref.F(ref.FUserLogin, obf("nu")), ref.FS(ref.FUserName, "N2"), ref.F(ref.FUserPassword, []byte{0}), ref.F(ref.FUserAccess, make([]byte, 8))))}}
	}, ""},
	{"batch-delete-then-recreate", []int{ref.PDeleteUser, ref.PCreateUser}, func(x c05Ctx) ref.Tx {
		return ref.Tx{Type: ref.TUpdateUser, Fields: []ref.Fld{
			ref.F(ref.FData, subFields(ref.F(ref.FData, obf("vic")))),
			ref.F(ref.FData, subFields(ref.F(ref.FUserLogin, obf("vic")), ref.FS(ref.FUserName, "Again"), ref.F(ref.FUserPassword, obf("p")), ref.F(ref.FUserAccess, make([]byte, 8))))}}
	}, ""},
	// the first entry edits the requester's own account (login u) and takes modify-user away from it; the second edits
	// another account: the request is carried out as a whole or refused as a whole
	{"batch-modify-self-then-other", []int{ref.PModifyUser}, func(x c05Ctx) ref.Tx {
		return ref.Tx{Type: ref.TUpdateUser, Fields: []ref.Fld{
			ref.F(ref.FData, subFields(ref.F(ref.FUserLogin, obf("u")), ref.FS(ref.FUserName, "uu2"), ref.F(ref.FUserPassword, []byte{0}), ref.F(ref.FUserAccess, make([]byte, 8)))),
			ref.F(ref.FData, subFields(ref.F(ref.FUserLogin, obf("vic")), ref.FS(ref.FUserName, "Changed"), ref.F(ref.FUserPassword, []byte{0}), ref.F(ref.FUserAccess, make([]byte, 8))))}}
	}, ""},
	// the second entry creates an account with more access than the requester holds: refused - before the first is carried out
	{"batch-modify-then-create-with-more-access", []int{ref.PModifyUser, ref.PCreateUser, ref.PBroadcast}, func(x c05Ctx) ref.Tx {
		acc := world.Bits(ref.PBroadcast)
		return ref.Tx{Type: ref.TUpdateUser, Fields: []ref.Fld{
			ref.F(ref.FData, subFields(ref.F(ref.FUserLogin, obf("vic")), ref.FS(ref.FUserName, "Changed"), ref.F(ref.FUserPassword, []byte{0}), ref.F(ref.FUserAccess, make([]byte, 8)))),
			ref.F(ref.FData, subFields(ref.F(ref.FUserLogin, obf("nu")), ref.FS(ref.FUserName, "N"), ref.F(ref.FUserPassword, obf("p")), ref.F(ref.FUserAccess, acc[:])))}}
	}, ""},
	{"batch-delete", []int{ref.PDeleteUser}, func(x c05Ctx) ref.Tx {
		return ref.Tx{Type: ref.TUpdateUser, Fields: []ref.Fld{ref.F(ref.FData, subFields(ref.F(ref.FData, obf("vic"))))}}
	}, ""},
	{"download-file", []int{ref.PDownloadFile}, func(x c05Ctx) ref.Tx {
		return ref.Tx{Type: ref.TDownloadFile, Fields: []ref.Fld{ref.FS(ref.FFileName, "f.txt")}}
	}, ""},
	{"download-folder", []int{ref.PDownloadFolder}, func(x c05Ctx) ref.Tx {
		return ref.Tx{Type: ref.TDownloadFldr, Fields: []ref.Fld{ref.FS(ref.FFileName, "dir")}}
	}, ""},
	{"upload-file-uploads", []int{ref.PUploadFile}, func(x c05Ctx) ref.Tx {
		return ref.Tx{Type: ref.TUploadFile, Fields: []ref.Fld{ref.FS(ref.FFileName, "new.txt"), ref.F(ref.FFilePath, ref.PathBytes("Uploads")), ref.F32(ref.FTransferSize, 100)}}
	}, ""},
	{"upload-file-dropbox", []int{ref.PUploadFile}, func(x c05Ctx) ref.Tx {
		return ref.Tx{Type: ref.TUploadFile, Fields: []ref.Fld{ref.FS(ref.FFileName, "new.txt"), ref.F(ref.FFilePath, ref.PathBytes("Drop Box")), ref.F32(ref.FTransferSize, 100)}}
	}, ""},
	{"upload-file-elsewhere", []int{ref.PUploadFile, ref.PUploadAnywhere}, func(x c05Ctx) ref.Tx {
		return ref.Tx{Type: ref.TUploadFile, Fields: []ref.Fld{ref.FS(ref.FFileName, "new.txt"), ref.F(ref.FFilePath, ref.PathBytes("other")), ref.F32(ref.FTransferSize, 100)}}
	}, ""},
	{"upload-file-root", []int{ref.PUploadFile, ref.PUploadAnywhere}, func(x c05Ctx) ref.Tx {
		return ref.Tx{Type: ref.TUploadFile, Fields: []ref.Fld{ref.FS(ref.FFileName, "new.txt"), ref.F32(ref.FTransferSize, 100)}}
	}, ""},
	{"upload-folder-uploads", []int{ref.PUploadFolder}, func(x c05Ctx) ref.Tx {
		return ref.Tx{Type: ref.TUploadFldr, Fields: []ref.Fld{ref.FS(ref.FFileName, "nf"), ref.F(ref.FFilePath, ref.PathBytes("Uploads")), ref.F32(ref.FTransferSize, 100), ref.F16(ref.FFolderItemCount, 1)}}
	}, ""},
	{"upload-folder-elsewhere", []int{ref.PUploadFolder, ref.PUploadAnywhere}, func(x c05Ctx) ref.Tx {
		return ref.Tx{Type: ref.TUploadFldr, Fields: []ref.Fld{ref.FS(ref.FFileName, "nf"), ref.F(ref.FFilePath, ref.PathBytes("other")), ref.F32(ref.FTransferSize, 100), ref.F16(ref.FFolderItemCount, 1)}}
	}, ""},
	{"delete-file", []int{ref.PDeleteFile}, func(x c05Ctx) ref.Tx {
		return ref.Tx{Type: ref.TDeleteFile, Fields: []ref.Fld{ref.FS(ref.FFileName, "f.txt")}}
	}, ""},
	{"delete-folder", []int{ref.PDeleteFolder}, func(x c05Ctx) ref.Tx {
		return ref.Tx{Type: ref.TDeleteFile, Fields: []ref.Fld{ref.FS(ref.FFileName, "dir")}}
	}, ""},
	{"delete-nested-file", []int{ref.PDeleteFile}, func(x c05Ctx) ref.Tx {
		return ref.Tx{Type: ref.TDeleteFile, Fields: []ref.Fld{ref.FS(ref.FFileName, "inner.txt"), ref.F(ref.FFilePath, ref.PathBytes("dir"))}}
	}, ""},
	{"create-folder", []int{ref.PCreateFolder}, func(x c05Ctx) ref.Tx {
		return ref.Tx{Type: ref.TNewFolder, Fields: []ref.Fld{ref.FS(ref.FFileName, "made")}}
	}, ""},
	{"create-folder-nested", []int{ref.PCreateFolder}, func(x c05Ctx) ref.Tx {
		return ref.Tx{Type: ref.TNewFolder, Fields: []ref.Fld{ref.FS(ref.FFileName, "made"), ref.F(ref.FFilePath, ref.PathBytes("dir"))}}
	}, ""},
	{"comment-file", []int{ref.PSetFileComment}, func(x c05Ctx) ref.Tx {
		return ref.Tx{Type: ref.TSetFileInfo, Fields: []ref.Fld{ref.FS(ref.FFileName, "f.txt"), ref.FS(ref.FFileComment, "nice")}}
	}, ""},
	{"comment-folder", []int{ref.PSetFolderComment}, func(x c05Ctx) ref.Tx {
		return ref.Tx{Type: ref.TSetFileInfo, Fields: []ref.Fld{ref.FS(ref.FFileName, "dir"), ref.FS(ref.FFileComment, "nice")}}
	}, ""},
	{"comment-and-rename-file", []int{ref.PSetFileComment, ref.PRenameFile}, func(x c05Ctx) ref.Tx {
		return ref.Tx{Type: ref.TSetFileInfo, Fields: []ref.Fld{ref.FS(ref.FFileName, "f.txt"), ref.FS(ref.FFileComment, "nice"), ref.FS(ref.FFileNewName, "g.txt")}}
	}, ""},
	{"comment-and-rename-folder", []int{ref.PSetFolderComment, ref.PRenameFolder}, func(x c05Ctx) ref.Tx {
		return ref.Tx{Type: ref.TSetFileInfo, Fields: []ref.Fld{ref.FS(ref.FFileName, "dir"), ref.FS(ref.FFileComment, "nice"), ref.FS(ref.FFileNewName, "dir2")}}
	}, ""},
	{"rename-file", []int{ref.PRenameFile}, func(x c05Ctx) ref.Tx {
		return ref.Tx{Type: ref.TSetFileInfo, Fields: []ref.Fld{ref.FS(ref.FFileName, "f.txt"), ref.FS(ref.FFileNewName, "g.txt")}}
	}, ""},
	{"rename-folder", []int{ref.PRenameFolder}, func(x c05Ctx) ref.Tx {
		return ref.Tx{Type: ref.TSetFileInfo, Fields: []ref.Fld{ref.FS(ref.FFileName, "dir"), ref.FS(ref.FFileNewName, "dir2")}}
	}, ""},
	{"rename-folder-new-name-with-separator", []int{ref.PRenameFolder}, func(x c05Ctx) ref.Tx {
		return ref.Tx{Type: ref.TSetFileInfo, Fields: []ref.Fld{ref.FS(ref.FFileName, "dir"), ref.FS(ref.FFileNewName, "other/dir2")}}
	}, ""},
	{"rename-file-new-name-with-separator", []int{ref.PRenameFile}, func(x c05Ctx) ref.Tx {
		return ref.Tx{Type: ref.TSetFileInfo, Fields: []ref.Fld{ref.FS(ref.FFileName, "f.txt"), ref.FS(ref.FFileNewName, "other/g.txt")}}
	}, ""},
	{"rename-file-onto-existing-file", []int{ref.PRenameFile}, func(x c05Ctx) ref.Tx {
		return ref.Tx{Type: ref.TSetFileInfo, Fields: []ref.Fld{ref.FS(ref.FFileName, "f.txt"), ref.FS(ref.FFileNewName, "t.txt")}}
	}, ""},
	{"move-file-onto-existing-file", []int{ref.PMoveFile}, func(x c05Ctx) ref.Tx {
		return ref.Tx{Type: ref.TMoveFile, Fields: []ref.Fld{ref.FS(ref.FFileName, "inner.txt"), ref.F(ref.FFilePath, ref.PathBytes("dir")), ref.F(ref.FFileNewPath, ref.PathBytes("other"))}}
	}, ""},
	{"batch-rename-onto-existing-account-file", []int{ref.PModifyUser}, func(x c05Ctx) ref.Tx { // "./guest" is another login and the same file name
		return ref.Tx{Type: ref.TUpdateUser, Fields: []ref.Fld{ref.F(ref.FData, subFields(ref.F(ref.FData, obf("vic")), ref.F(ref.FUserLogin, obf("./guest")), ref.FS(ref.FUserName, "Victim"), ref.F(ref.FUserPassword, []byte{0}), ref.F(ref.FUserAccess, make([]byte, 8))))}}
	}, ""},
	{"batch-rename-onto-existing-login", []int{ref.PModifyUser}, func(x c05Ctx) ref.Tx {
		return ref.Tx{Type: ref.TUpdateUser, Fields: []ref.Fld{ref.F(ref.FData, subFields(ref.F(ref.FData, obf("vic")), ref.F(ref.FUserLogin, obf("guest")), ref.FS(ref.FUserName, "Victim"), ref.F(ref.FUserPassword, []byte{0}), ref.F(ref.FUserAccess, make([]byte, 8))))}}
	}, ""},
	{"move-file", []int{ref.PMoveFile}, func(x c05Ctx) ref.Tx {
		return ref.Tx{Type: ref.TMoveFile, Fields: []ref.Fld{ref.FS(ref.FFileName, "f.txt"), ref.F(ref.FFileNewPath, ref.PathBytes("other"))}}
	}, ""},
	{"move-folder", []int{ref.PMoveFolder}, func(x c05Ctx) ref.Tx {
		return ref.Tx{Type: ref.TMoveFile, Fields: []ref.Fld{ref.FS(ref.FFileName, "dir"), ref.F(ref.FFileNewPath, ref.PathBytes("other"))}}
	}, ""},
	{"make-alias", []int{ref.PMakeAlias}, func(x c05Ctx) ref.Tx {
		return ref.Tx{Type: ref.TMakeFileAlias, Fields: []ref.Fld{ref.FS(ref.FFileName, "f.txt"), ref.F(ref.FFileNewPath, ref.PathBytes("other"))}}
	}, ""},
	{"delete-file-with-folder-typed-info", []int{ref.PDeleteFile}, func(x c05Ctx) ref.Tx {
		return ref.Tx{Type: ref.TDeleteFile, Fields: []ref.Fld{ref.FS(ref.FFileName, "odd.txt")}}
	}, ""},
	{"delete-folder-with-file-typed-info", []int{ref.PDeleteFolder}, func(x c05Ctx) ref.Tx {
		return ref.Tx{Type: ref.TDeleteFile, Fields: []ref.Fld{ref.FS(ref.FFileName, "oddir")}}
	}, ""},
	{"move-file-with-folder-typed-info", []int{ref.PMoveFile}, func(x c05Ctx) ref.Tx {
		return ref.Tx{Type: ref.TMoveFile, Fields: []ref.Fld{ref.FS(ref.FFileName, "odd.txt"), ref.F(ref.FFileNewPath, ref.PathBytes("other"))}}
	}, ""},
	{"move-folder-with-file-typed-info", []int{ref.PMoveFolder}, func(x c05Ctx) ref.Tx {
		return ref.Tx{Type: ref.TMoveFile, Fields: []ref.Fld{ref.FS(ref.FFileName, "oddir"), ref.F(ref.FFileNewPath, ref.PathBytes("other"))}}
	}, ""},
	{"rename-file-with-folder-typed-info", []int{ref.PRenameFile}, func(x c05Ctx) ref.Tx {
		return ref.Tx{Type: ref.TSetFileInfo, Fields: []ref.Fld{ref.FS(ref.FFileName, "odd.txt"), ref.FS(ref.FFileNewName, "odd2.txt")}}
	}, ""},
	{"rename-folder-with-file-typed-info", []int{ref.PRenameFolder}, func(x c05Ctx) ref.Tx {
		return ref.Tx{Type: ref.TSetFileInfo, Fields: []ref.Fld{ref.FS(ref.FFileName, "oddir"), ref.FS(ref.FFileNewName, "oddir2")}}
	}, ""},
	{"comment-file-with-folder-typed-info", []int{ref.PSetFileComment}, func(x c05Ctx) ref.Tx {
		return ref.Tx{Type: ref.TSetFileInfo, Fields: []ref.Fld{ref.FS(ref.FFileName, "odd.txt"), ref.FS(ref.FFileComment, "c")}}
	}, ""},
	{"comment-folder-with-file-typed-info", []int{ref.PSetFolderComment}, func(x c05Ctx) ref.Tx {
		return ref.Tx{Type: ref.TSetFileInfo, Fields: []ref.Fld{ref.FS(ref.FFileName, "oddir"), ref.FS(ref.FFileComment, "c")}}
	}, ""},
	{"comment-file-alias", []int{ref.PSetFileComment}, func(x c05Ctx) ref.Tx {
		return ref.Tx{Type: ref.TSetFileInfo, Fields: []ref.Fld{ref.FS(ref.FFileName, "t-alias"), ref.FS(ref.FFileComment, "c")}}
	}, ""},
	{"comment-folder-alias", []int{ref.PSetFolderComment}, func(x c05Ctx) ref.Tx {
		return ref.Tx{Type: ref.TSetFileInfo, Fields: []ref.Fld{ref.FS(ref.FFileName, "tdir-alias"), ref.FS(ref.FFileComment, "c")}}
	}, ""},
	{"rename-file-alias", []int{ref.PRenameFile}, func(x c05Ctx) ref.Tx {
		return ref.Tx{Type: ref.TSetFileInfo, Fields: []ref.Fld{ref.FS(ref.FFileName, "t-alias"), ref.FS(ref.FFileNewName, "t-alias2")}}
	}, ""},
	{"rename-folder-alias", []int{ref.PRenameFolder}, func(x c05Ctx) ref.Tx {
		return ref.Tx{Type: ref.TSetFileInfo, Fields: []ref.Fld{ref.FS(ref.FFileName, "tdir-alias"), ref.FS(ref.FFileNewName, "tdir-alias2")}}
	}, ""},
	{"delete-file-alias", []int{ref.PDeleteFile}, func(x c05Ctx) ref.Tx {
		return ref.Tx{Type: ref.TDeleteFile, Fields: []ref.Fld{ref.FS(ref.FFileName, "t-alias")}}
	}, ""},
	{"delete-folder-alias", []int{ref.PDeleteFolder}, func(x c05Ctx) ref.Tx {
		return ref.Tx{Type: ref.TDeleteFile, Fields: []ref.Fld{ref.FS(ref.FFileName, "tdir-alias")}}
	}, ""},
	{"move-file-alias", []int{ref.PMoveFile}, func(x c05Ctx) ref.Tx {
		return ref.Tx{Type: ref.TMoveFile, Fields: []ref.Fld{ref.FS(ref.FFileName, "t-alias"), ref.F(ref.FFileNewPath, ref.PathBytes("other"))}}
	}, ""},
	{"move-folder-alias", []int{ref.PMoveFolder}, func(x c05Ctx) ref.Tx {
		return ref.Tx{Type: ref.TMoveFile, Fields: []ref.Fld{ref.FS(ref.FFileName, "tdir-alias"), ref.F(ref.FFileNewPath, ref.PathBytes("other"))}}
	}, ""},
	{"list-drop-box", []int{ref.PViewDropBoxes}, func(x c05Ctx) ref.Tx {
		return ref.Tx{Type: ref.TGetFileNameList, Fields: []ref.Fld{ref.F(ref.FFilePath, ref.PathBytes("Drop Box"))}}
	}, "secret.txt"},
	// the same folders reached by other spellings of the path: the governing privilege follows the folder
	// the request resolves to, not the bytes of the last path item
	{"list-drop-box-dot-item", []int{ref.PViewDropBoxes}, func(x c05Ctx) ref.Tx {
		return ref.Tx{Type: ref.TGetFileNameList, Fields: []ref.Fld{ref.F(ref.FFilePath, ref.PathBytes("Drop Box", "."))}}
	}, "secret.txt"},
	{"list-drop-box-via-dotdot", []int{ref.PViewDropBoxes}, func(x c05Ctx) ref.Tx {
		return ref.Tx{Type: ref.TGetFileNameList, Fields: []ref.Fld{ref.F(ref.FFilePath, ref.PathBytes("Drop Box", "x", ".."))}}
	}, "secret.txt"},
	{"list-drop-box-slash-in-item", []int{ref.PViewDropBoxes}, func(x c05Ctx) ref.Tx {
		return ref.Tx{Type: ref.TGetFileNameList, Fields: []ref.Fld{ref.F(ref.FFilePath, ref.PathBytes("Drop Box/."))}}
	}, "secret.txt"},
	{"upload-file-elsewhere-via-uploads-item", []int{ref.PUploadFile, ref.PUploadAnywhere}, func(x c05Ctx) ref.Tx {
		return ref.Tx{Type: ref.TUploadFile, Fields: []ref.Fld{ref.FS(ref.FFileName, "new.txt"), ref.F(ref.FFilePath, ref.PathBytes("Uploads/../other")), ref.F32(ref.FTransferSize, 100)}}
	}, ""},
	{"upload-file-elsewhere-via-dropbox-item", []int{ref.PUploadFile, ref.PUploadAnywhere}, func(x c05Ctx) ref.Tx {
		return ref.Tx{Type: ref.TUploadFile, Fields: []ref.Fld{ref.FS(ref.FFileName, "new.txt"), ref.F(ref.FFilePath, ref.PathBytes("other", "Drop Box/..")), ref.F32(ref.FTransferSize, 100)}}
	}, ""},
	{"upload-folder-elsewhere-via-uploads-item", []int{ref.PUploadFolder, ref.PUploadAnywhere}, func(x c05Ctx) ref.Tx {
		return ref.Tx{Type: ref.TUploadFldr, Fields: []ref.Fld{ref.FS(ref.FFileName, "nf"), ref.F(ref.FFilePath, ref.PathBytes("Uploads/../other")), ref.F32(ref.FTransferSize, 100), ref.F16(ref.FFolderItemCount, 1)}}
	}, ""},
	{"upload-file-uploads-dot-item", []int{ref.PUploadFile}, func(x c05Ctx) ref.Tx {
		return ref.Tx{Type: ref.TUploadFile, Fields: []ref.Fld{ref.FS(ref.FFileName, "new.txt"), ref.F(ref.FFilePath, ref.PathBytes("Uploads", ".")), ref.F32(ref.FTransferSize, 100)}}
	}, ""},
	// folders below a drop box / an upload folder belong to it
	{"list-folder-inside-drop-box", []int{ref.PViewDropBoxes}, func(x c05Ctx) ref.Tx {
		return ref.Tx{Type: ref.TGetFileNameList, Fields: []ref.Fld{ref.F(ref.FFilePath, ref.PathBytes("Drop Box", "inner"))}}
	}, "deep-secret.txt"},
	{"upload-file-uploads-subfolder", []int{ref.PUploadFile}, func(x c05Ctx) ref.Tx {
		return ref.Tx{Type: ref.TUploadFile, Fields: []ref.Fld{ref.FS(ref.FFileName, "new.txt"), ref.F(ref.FFilePath, ref.PathBytes("Uploads", "sub")), ref.F32(ref.FTransferSize, 100)}}
	}, ""},
	// the server keeps a file's comment, type and creator in .info_<name> next to it, its partial data in <name>.incomplete:
	// creating an entry under such a name changes the other file's comment (type, data) - the set-comment privilege's effect
	{"upload-file-named-like-an-information-fork", []int{ref.PUploadFile, ref.PSetFileComment}, func(x c05Ctx) ref.Tx {
		return ref.Tx{Type: ref.TUploadFile, Fields: []ref.Fld{ref.FS(ref.FFileName, ".info_f.txt"), ref.F(ref.FFilePath, ref.PathBytes("Uploads")), ref.F32(ref.FTransferSize, 100)}}
	}, ""},
	{"upload-folder-named-like-an-information-fork", []int{ref.PUploadFolder, ref.PSetFileComment}, func(x c05Ctx) ref.Tx {
		return ref.Tx{Type: ref.TUploadFldr, Fields: []ref.Fld{ref.FS(ref.FFileName, ".info_f.txt"), ref.F(ref.FFilePath, ref.PathBytes("Uploads")), ref.F32(ref.FTransferSize, 100), ref.F16(ref.FFolderItemCount, 1)}}
	}, ""},
	{"rename-file-to-an-information-fork-name", []int{ref.PRenameFile, ref.PSetFileComment}, func(x c05Ctx) ref.Tx {
		return ref.Tx{Type: ref.TSetFileInfo, Fields: []ref.Fld{ref.FS(ref.FFileName, "t.txt"), ref.FS(ref.FFileNewName, ".info_f.txt")}}
	}, ""},
	{"create-folder-named-like-an-information-fork", []int{ref.PCreateFolder, ref.PSetFileComment}, func(x c05Ctx) ref.Tx {
		return ref.Tx{Type: ref.TNewFolder, Fields: []ref.Fld{ref.FS(ref.FFileName, ".info_f.txt")}}
	}, ""},
	// a folder download sends what a file list would show, item by item
	{"download-folder-drop-box", []int{ref.PDownloadFolder, ref.PViewDropBoxes}, func(x c05Ctx) ref.Tx {
		return ref.Tx{Type: ref.TDownloadFldr, Fields: []ref.Fld{ref.FS(ref.FFileName, "Drop Box")}}
	}, ""},
	{"download-folder-inside-drop-box", []int{ref.PDownloadFolder, ref.PViewDropBoxes}, func(x c05Ctx) ref.Tx {
		return ref.Tx{Type: ref.TDownloadFldr, Fields: []ref.Fld{ref.FS(ref.FFileName, "inner"), ref.F(ref.FFilePath, ref.PathBytes("Drop Box"))}}
	}, ""},
	{"download-folder-holding-a-drop-box", []int{ref.PDownloadFolder, ref.PViewDropBoxes}, func(x c05Ctx) ref.Tx {
		return ref.Tx{Type: ref.TDownloadFldr, Fields: []ref.Fld{ref.FS(ref.FFileName, "holder")}}
	}, ""},
	{"list-nested-drop-box", []int{ref.PViewDropBoxes}, func(x c05Ctx) ref.Tx {
		return ref.Tx{Type: ref.TGetFileNameList, Fields: []ref.Fld{ref.F(ref.FFilePath, ref.PathBytes("other", "my drop box"))}}
	}, ""},
}

// special kinds with their own oracle
var c05Special = []string{"anyname-login", "anyname-setinfo", "anyname-agreed", "chat-read"}

// live-session family: an administrator edits an account that has a live session; what that
// session may do afterwards follows the account's current privileges.
var c05LiveProbes = []struct {
	name string
	bit  int
	tx   ref.Tx
}{
	{"get-messages", ref.PNewsReadArt, ref.Tx{Type: ref.TGetMsgs}},
	{"broadcast", ref.PBroadcast, ref.Tx{Type: ref.TUserBroadcast, Fields: []ref.Fld{ref.FS(ref.FData, "x")}}},
	{"create-folder", ref.PCreateFolder, ref.Tx{Type: ref.TNewFolder, Fields: []ref.Fld{ref.FS(ref.FFileName, "lf")}}},
	{"list-accounts", ref.POpenUser, ref.Tx{Type: ref.TListUsers}},
}

func c05Live(w *explore.Worker, c c05Case) {
	var pi, grant, batch int
	if n, _ := fmt.Sscanf(c.Kind, "live:%d:%d:%d", &pi, &grant, &batch); n < 2 {
		w.Broken("bad live case %q", c.Kind)
		return
	}
	pr := c05LiveProbes[pi]
	// editor 0: SetUser; 1: UpdateUser; 2: UpdateUser renaming the account and changing its access in one
	// entry; 3: UpdateUser renames first, a later SetUser on the new login changes the access
	editor := []string{"set-user", "update-user", "update-user-rename-and-edit", "rename-then-set-user"}[batch]
	fail := func(clause, detail string) {
		sig := "C05/live-session/" + pr.name + "/" + clause
		if batch >= 1 {
			sig = "C05/live-session/" + editor + "/" + pr.name + "/" + clause
		}
		w.Violation(sig, fmt.Sprintf("probe %s grant=%d edited with %s: %s", pr.name, grant, editor, detail), 0, c)
	}
	seqChecked(w, "C05", "live", c, func() {
		before, after := world.Bits(ref.PReadChat), world.Bits(ref.PReadChat, pr.bit)
		if grant == 0 {
			before, after = after, before
		}
		wd := world.New(world.Cfg{Board: "b", Files: c05Files, Accounts: []world.Acct{
			{Login: "guest", Name: "Guest"},
			{Login: "adm", Name: "adm", Password: "ap", Access: world.AllAccess},
			{Login: "vic", Name: "Victim", Password: "vp", Access: before},
		}})
		defer wd.Close()
		adm, r1 := wd.Connect("10.0.0.9:1009", "adm", "ap", "adm")
		v1, r2 := wd.Connect("10.0.0.4:1004", "vic", "vp", "Victim")
		v2, r3 := wd.Connect("10.0.0.5:1005", "vic", "vp", "Victim") // a second session of the same account
		if r1 == nil || r2 == nil || r3 == nil || r1.Err != 0 || r2.Err != 0 || r3.Err != 0 {
			w.Broken("C05 live: logins failed")
			return
		}
		var id uint32
		switch batch {
		case 1:
			id = adm.Req(ref.TUpdateUser, ref.F(ref.FData, subFields(ref.F(ref.FUserLogin, obf("vic")), ref.FS(ref.FUserName, "Victim"), ref.F(ref.FUserPassword, []byte{0}), ref.F(ref.FUserAccess, after[:]))))
		case 2:
			id = adm.Req(ref.TUpdateUser, ref.F(ref.FData, subFields(ref.F(ref.FData, obf("vic")), ref.F(ref.FUserLogin, obf("vic2")), ref.FS(ref.FUserName, "Victim"), ref.F(ref.FUserPassword, []byte{0}), ref.F(ref.FUserAccess, after[:]))))
		case 3:
			id = adm.Req(ref.TUpdateUser, ref.F(ref.FData, subFields(ref.F(ref.FData, obf("vic")), ref.F(ref.FUserLogin, obf("vic2")), ref.FS(ref.FUserName, "Victim"), ref.F(ref.FUserPassword, []byte{0}), ref.F(ref.FUserAccess, before[:]))))
			world.Quiet()
			if r := adm.Reply(id); r == nil || r.Err != 0 {
				fail("rename-refused", fmt.Sprint(r))
				return
			}
			id = adm.Req(ref.TSetUser, ref.F(ref.FUserLogin, obf("vic2")), ref.FS(ref.FUserName, "Victim"), ref.F(ref.FUserPassword, []byte{0}), ref.F(ref.FUserAccess, after[:]))
		}
		if batch == 0 {
			id = adm.Req(ref.TSetUser, ref.F(ref.FUserLogin, obf("vic")), ref.FS(ref.FUserName, "Victim"), ref.F(ref.FUserPassword, []byte{0}), ref.F(ref.FUserAccess, after[:]))
		}
		world.Quiet()
		if r := adm.Reply(id); r == nil || r.Err != 0 {
			fail("set-user-refused", fmt.Sprint(r))
			return
		}
		for si, v := range []*world.Client{v1, v2} {
			t := pr.tx
			pid := v.Send(t)
			world.Quiet()
			rp := v.Reply(pid)
			denied := rp != nil && rp.Err != 0 && strings.Contains(strings.ToLower(fieldStr(rp, ref.FError)), "not allowed")
			if grant == 1 && denied {
				fail("granted-privilege-not-effective-for-live-session", fmt.Sprintf("session %d: %s", si+1, fieldStr(rp, ref.FError)))
			}
			if grant == 0 && !denied {
				fail("revoked-privilege-still-effective-for-live-session", fmt.Sprintf("session %d: reply %v", si+1, rp))
			}
		}
		// the administrator's own session is unaffected by editing somebody else
		lid := adm.Req(ref.TListUsers)
		world.Quiet()
		if r := adm.Reply(lid); r == nil || r.Err != 0 {
			fail("editing-another-account-changed-the-editor's-privileges", fmt.Sprint(r))
		}
		w.Outcome(fmt.Sprintf("live %s %d %s", pr.name, grant, editor))
	})
}

type c05Case struct {
	Kind string  `json:"kind"`
	Bits [8]byte `json:"bits"`
}

type c05Obs struct {
	ReplyNil  bool
	ReplyErr  uint32
	ReplyText string
	Reply     string // canonical reply (flags masked)
	ObsInbox  string // what the observer received
	TgtInbox  string
	Snapshot  string
	Leak      bool
	Never     string // non-empty: a state was reached that this requester must never reach (see c05Never)
}

func maskFlags(t ref.Tx) ref.Tx {
	c := t
	c.Fields = nil
	for _, f := range t.Fields {
		if f.ID == ref.FUserFlags {
			f.Data = []byte{0xEE, 0xEE}
		}
		if f.ID == ref.FUserNameWithInfo && len(f.Data) >= 6 {
			d := append([]byte(nil), f.Data...)
			d[4], d[5] = 0xEE, 0xEE
			f.Data = d
		}
		if f.ID == ref.FRefNum {
			f.Data = []byte("ref")
		}
		if f.ID == ref.FChatID && t.Type != ref.TInviteToChat || (f.ID == ref.FChatID && len(f.Data) == 4 && f.Data[0] == 0 && f.Data[1] == 0 && f.Data[2] >= 0x10) {
			f.Data = []byte("chat") // server-chosen chat id (deterministic counter, but shifted by the login flow)
		}
		c.Fields = append(c.Fields, f)
	}
	return c
}

func canonTxs(txs []ref.Tx) string {
	m := make([]ref.Tx, len(txs))
	for i, t := range txs {
		m[i] = maskFlags(t)
	}
	return ref.CanonMultiset(m)
}

func c05World(bits [8]byte) *world.World {
	return world.New(world.Cfg{
		Board:    "board-secret text\r",
		NewsYAML: c05News,
		Files:    c05Files,
		Accounts: []world.Acct{
			{Login: "guest", Name: "Guest"},
			{Login: "u", Name: "uu", Password: "pw", Access: bits},
			{Login: "obs", Name: "obs", Password: "op", Access: world.Without(world.AllAccess, ref.PNoAgreement)},
			{Login: "vic", Name: "Victim", Password: "vp", Access: world.Bits(ref.PReadChat)},
		},
	})
}

// c05Snapshot: everything a request could change, as seen from outside: the sandbox directory
// (minus the requester's own account file), the account list, the user list, the requester's
// transfer list and name as shown to the observer.
func c05Snapshot(wd *world.World, obs *world.Client, uID uint16) string {
	var sb strings.Builder
	for _, l := range world.SnapshotDir(wd.Dir) {
		if strings.HasPrefix(l, "config/Users/u.yaml") {
			continue
		}
		if strings.HasPrefix(l, "config/Users/") && strings.Contains(l, ".yaml F ") {
			// bcrypt salts are random: hash the file without its Password line
			name := strings.SplitN(l, " F ", 2)[0]
			raw, _ := os.ReadFile(filepath.Join(wd.Dir, name))
			var keep []string
			for _, ln := range strings.Split(string(raw), "\n") {
				if !strings.HasPrefix(ln, "Password:") {
					keep = append(keep, ln)
				}
			}
			l = fmt.Sprintf("%s F* %x", name, explore.Hash(strings.Join(keep, "\n")))
		}
		sb.WriteString(strings.ReplaceAll(l, wd.Dir, "$W") + "\n")
	}
	var logins []string
	for _, a := range wd.Srv.AccountManager.List() {
		if a.Login == "u" {
			logins = append(logins, fmt.Sprintf("%s/%s", a.Login, a.Name)) // the requester's own bitmap is the parameter of the case
			continue
		}
		logins = append(logins, fmt.Sprintf("%s/%s/%x", a.Login, a.Name, a.Access[:]))
	}
	sort.Strings(logins)
	sb.WriteString(strings.Join(logins, ";") + "\n")
	id := obs.Req(ref.TGetClientInfoText, ref.F16(ref.FUserID, uID))
	world.Quiet()
	if r := obs.Reply(id); r != nil {
		sb.WriteString("info:" + fieldStr(r, ref.FData) + "\n")
	}
	for _, u := range wd.UserList(obs) {
		sb.WriteString(fmt.Sprintf("user %d %q icon %d\n", u.ID, u.Name, u.Icon))
	}
	obs.New()
	return sb.String()
}

func c05Exec(w *explore.Worker, k c05Kind, bits [8]byte, rc c05Case) (o c05Obs, ok bool) {
	seqChecked(w, "C05", k.Name, rc, func() {
		wd := c05World(bits)
		defer wd.Close()
		obs, r1 := wd.Connect("10.0.0.3:1003", "obs", "op", "obs")
		tgt, r2 := wd.Connect("10.0.0.4:1004", "vic", "vp", "Victim")
		u, r3 := wd.Connect("10.0.0.1:1001", "u", "pw", "uu")
		if r1 == nil || r2 == nil || r3 == nil || r1.Err != 0 || r2.Err != 0 || r3.Err != 0 {
			w.Broken("C05: logins failed %v %v %v", r1, r2, r3)
			return
		}
		var x c05Ctx
		for _, ui := range wd.UserList(obs) {
			switch ui.Name {
			case "obs":
				x.obsID = ui.ID
			case "Victim":
				x.tgtID = ui.ID
			case "uu":
				x.uID = ui.ID
			}
		}
		if x.obsID == 0 || x.tgtID == 0 || x.uID == 0 {
			w.Broken("C05: ids not found")
			return
		}
		before := c05Snapshot(wd, obs, x.uID)
		obs.New()
		tgt.New()
		u.New()
		id := u.Send(k.Build(x))
		world.Settle(10 * time.Second)
		r := u.Reply(id)
		o.ReplyNil = r == nil
		if r != nil {
			o.ReplyErr = r.Err
			o.ReplyText = fieldStr(r, ref.FError)
			o.Reply = maskFlags(*r).Canon()
			if k.Secret != "" {
				for _, f := range r.Fields {
					if strings.Contains(string(f.Data), k.Secret) {
						o.Leak = true
					}
				}
			}
		}
		o.ObsInbox = canonTxs(obs.New())
		o.TgtInbox = canonTxs(tgt.New())
		if f := c05Never[k.Name]; f != nil {
			o.Never = f(wd, bits)
		}
		after := c05Snapshot(wd, obs, x.uID)
		if after == before {
			o.Snapshot = "unchanged"
		} else {
			o.Snapshot = after
		}
		ok = true
	})
	return o, ok
}

type c05Ref struct {
	denied, granted c05Obs
}

var c05Refs = map[string]*c05Ref{}

func c05Reference(w *explore.Worker, k c05Kind) *c05Ref {
	if r, ok := c05Refs[k.Name]; ok {
		return r
	}
	r := &c05Ref{}
	var ok1, ok2 bool
	r.denied, ok1 = c05Exec(w, k, [8]byte{}, c05Case{k.Name, [8]byte{}})
	r.granted, ok2 = c05Exec(w, k, world.AllAccess, c05Case{k.Name, world.AllAccess})
	if !ok1 || !ok2 {
		return nil
	}
	c05Refs[k.Name] = r
	return r
}

func c05Check(w *explore.Worker, c c05Case) {
	if strings.HasPrefix(c.Kind, "live:") {
		c05Live(w, c)
		return
	}
	for _, s := range c05Special {
		if s == c.Kind {
			c05CheckSpecial(w, c)
			return
		}
	}
	var k *c05Kind
	for i := range c05Kinds {
		if c05Kinds[i].Name == c.Kind {
			k = &c05Kinds[i]
		}
	}
	if k == nil {
		w.Broken("unknown kind %s", c.Kind)
		return
	}
	rf := c05Reference(w, *k)
	if rf == nil {
		return
	}
	fail := func(clause, detail string) {
		w.Violation("C05/"+k.Name+"/"+clause, fmt.Sprintf("kind %s requester bits %v (governing %v): %s", k.Name, bitList(c.Bits), k.G, detail), len(bitList(c.Bits)), c)
	}
	// sanity of the references themselves (they are cases of the enumeration too)
	o, ok := c05Exec(w, *k, c.Bits, c)
	if !ok {
		return
	}
	held := true
	for _, g := range k.G {
		if !ref.BitSet(c.Bits, g) {
			held = false
		}
	}
	if o.Never != "" {
		fail("effect-without-privilege", o.Never)
	}
	if !held {
		if o.ReplyNil || o.ReplyErr == 0 {
			fail("no-error-reply-without-privilege", fmt.Sprintf("reply=%s", o.Reply))
		}
		if o.Snapshot != "unchanged" {
			fail("effect-without-privilege", "state changed:\n"+clip(o.Snapshot, 1500))
		}
		if o.ObsInbox != "" || o.TgtInbox != "" {
			fail("reached-other-users-without-privilege", "observer got: "+o.ObsInbox+" target got: "+o.TgtInbox)
		}
		if o.Leak {
			fail("protected-data-revealed-without-privilege", o.Reply)
		}
	} else {
		if !o.ReplyNil && o.ReplyErr != 0 && o.ReplyText == rf.denied.ReplyText && rf.denied.ReplyText != rf.granted.ReplyText {
			fail("refused-although-privilege-held", "reply: "+o.ReplyText)
		}
		if k.Name == "account-list" {
			// the listing contains the requester's own bitmap (the parameter of the case) in unspecified order: compare shape only
			if o.ReplyNil || o.ReplyErr != 0 || strings.Count(o.Reply, " 101=") != strings.Count(rf.granted.Reply, " 101=") {
				fail("reply-differs-from-fully-privileged-run", fmt.Sprintf("got %s\nwith all privileges %s", o.Reply, rf.granted.Reply))
			}
		} else if o.Reply != rf.granted.Reply || o.ReplyNil != rf.granted.ReplyNil {
			fail("reply-differs-from-fully-privileged-run", fmt.Sprintf("got %s\nwith all privileges %s", o.Reply, rf.granted.Reply))
		}
		if o.Snapshot != rf.granted.Snapshot {
			fail("effect-differs-from-fully-privileged-run", fmt.Sprintf("got\n%s\nwith all privileges\n%s", clip(o.Snapshot, 1200), clip(rf.granted.Snapshot, 1200)))
		}
		if o.ObsInbox != rf.granted.ObsInbox || o.TgtInbox != rf.granted.TgtInbox {
			fail("deliveries-differ-from-fully-privileged-run", fmt.Sprintf("observer got %s / %s, with all privileges %s / %s", o.ObsInbox, o.TgtInbox, rf.granted.ObsInbox, rf.granted.TgtInbox))
		}
	}
	// distinct = distinct (kind, privilege held?, observation) classes — the bitmap itself is not part of it
	w.Outcome(fmt.Sprintf("%s|%v|%v|%d|%s|%s|%d", k.Name, held, o.ReplyNil, o.ReplyErr, o.ReplyText, o.ObsInbox, explore.Hash(o.Snapshot)))
}

func clip(s string, n int) string {
	if len(s) <= n {
		return s
	}
	return s[:n] + "…"
}

// c05CheckSpecial: the display-name privilege (the name is simply not adopted) and the read-chat
// privilege (which governs what the *recipient* gets).
func c05CheckSpecial(w *explore.Worker, c c05Case) {
	fail := func(clause, detail string) {
		w.Violation("C05/"+c.Kind+"/"+clause, fmt.Sprintf("kind %s bits %v: %s", c.Kind, bitList(c.Bits), detail), len(bitList(c.Bits)), c)
	}
	seqChecked(w, "C05", c.Kind, c, func() {
		wd := world.New(world.Cfg{Accounts: []world.Acct{
			{Login: "guest", Name: "Guest"},
			{Login: "u", Name: "AccountName", Password: "pw", Access: c.Bits},
			{Login: "obs", Name: "obs", Password: "op", Access: world.AllAccess},
		}})
		defer wd.Close()
		obs, r1 := wd.Connect("10.0.0.3:1003", "obs", "op", "obs")
		if r1 == nil || r1.Err != 0 {
			w.Broken("C05 special: observer login failed")
			return
		}
		u := wd.Dial("10.0.0.1:1001")
		u.Handshake()
		nameOf := func() string {
			for _, ui := range wd.UserList(obs) {
				if ui.Name != "obs" {
					return ui.Name
				}
			}
			return "?"
		}
		any := ref.BitSet(c.Bits, ref.PAnyName)
		var shown string
		obs.New()
		// announced: the name the observer was last told by a user-change notification
		announced := func() string {
			name := ""
			for _, t := range obs.New() {
				if t.Type == ref.TNotifyChangeUser {
					name = fieldStr(&t, ref.FUserName)
				}
			}
			return name
		}
		var told string
		switch c.Kind {
		case "anyname-login":
			u.Login123("u", "pw", "Chosen", 1)
			world.Quiet()
			told = announced()
			shown = nameOf()
		case "anyname-setinfo":
			u.Login123("u", "pw", "AccountName", 1)
			world.Quiet()
			obs.New()
			u.Req(ref.TSetClientUserInfo, ref.FS(ref.FUserName, "Chosen"), ref.F16(ref.FUserIconID, 2))
			world.Quiet()
			told = announced()
			shown = nameOf()
		case "anyname-agreed":
			u.Login15("u", "pw")
			world.Quiet()
			u.Req(ref.TAgreed, ref.FS(ref.FUserName, "Chosen"), ref.F16(ref.FUserIconID, 2), ref.F16(ref.FOptions, 0))
			world.Quiet()
			told = announced()
			shown = nameOf()
		case "chat-read":
			u.Login123("u", "pw", "AccountName", 1)
			world.Quiet()
			u.New()
			obs.Req(ref.TChatSend, ref.FS(ref.FData, "public line"))
			world.Quiet()
			got := 0
			for _, t := range u.New() {
				if t.Type == ref.TChatMsg {
					got++
				}
			}
			canRead := ref.BitSet(c.Bits, ref.PReadChat)
			if canRead && got != 1 {
				fail("reader-did-not-get-chat", fmt.Sprintf("got %d chat messages", got))
			}
			if !canRead && got != 0 {
				fail("chat-delivered-without-read-privilege", fmt.Sprintf("got %d chat messages", got))
			}
			w.Outcome(fmt.Sprintf("chat-read %v %d", canRead, got))
			return
		}
		if any && shown != "Chosen" {
			fail("name-not-adopted-although-privilege-held", "shown as "+shown)
		}
		if !any && shown != "AccountName" {
			fail("name-adopted-without-privilege", "shown as "+shown)
		}
		// what the other users are told is what the server holds
		if told != shown {
			fail("announced-name-differs-from-the-listed-one", fmt.Sprintf("the observer was notified of %q, the user list shows %q", told, shown))
		}
		w.Outcome(fmt.Sprintf("%s %v %s", c.Kind, any, shown))
	})
}

var c05Thorough bool

func c05Bitmaps(k []int) [][8]byte {
	out := [][8]byte{{}, world.AllAccess}
	if c05Thorough && len(k) > 0 {
		for i := 0; i < 64; i++ {
			for _, g := range k {
				if i != g {
					out = append(out, setBits(g, i), allBut(g, i))
				}
			}
		}
	}
	for i := 0; i < 64; i++ {
		out = append(out, setBits(i), allBut(i))
	}
	if len(k) == 2 {
		out = append(out, setBits(k[0], k[1]), allBut(k[0], k[1]))
	}
	return out
}

func runC05(w *explore.Worker) {
	c05Thorough = w.Thorough
	var cases []c05Case
	for _, k := range c05Kinds {
		for _, b := range c05Bitmaps(k.G) {
			cases = append(cases, c05Case{k.Name, b})
		}
	}
	for _, s := range c05Special {
		for _, b := range c05Bitmaps(nil) {
			cases = append(cases, c05Case{s, b})
		}
	}
	for pi := range c05LiveProbes {
		for grant := 0; grant < 2; grant++ {
			cases = append(cases, c05Case{Kind: fmt.Sprintf("live:%d:%d", pi, grant)}, c05Case{Kind: fmt.Sprintf("live:%d:%d:1", pi, grant)},
				c05Case{Kind: fmt.Sprintf("live:%d:%d:2", pi, grant)}, c05Case{Kind: fmt.Sprintf("live:%d:%d:3", pi, grant)})
		}
	}
	// shard by kind-major order so that each worker computes few references: deal cases round robin per kind block
	sort.SliceStable(cases, func(i, j int) bool { return false })
	for i, c := range cases {
		if !w.Next() {
			continue
		}
		if w.Expired() {
			w.Cap("time budget reached")
			return
		}
		w.Eval()
		c05Check(w, c)
		if i%1009 == 0 {
			w.Sample(map[string]interface{}{"kind": c.Kind, "requester_bits": bitList(c.Bits)})
		}
	}
	bound := 1
	if w.Thorough {
		bound = 2
	}
	for _, g := range []string{"revoke", "grant"} {
		explore.ExploreSchedules(w, explore.SchedConfig{Harness: "C05loginrace", Params: g, Bound: bound, FreeCost: 1, MaxSteps: 20000, Suspend: true}, c05LoginRace(g == "grant"))
	}
	if w.Index == 0 {
		w.Count("request_kinds", len(c05Kinds)+len(c05Special))
		w.Count("cases", len(cases))
	}
}

// c05LoginRace (E-SCHED): an account is edited by an administrator while a client is logging in to it.  Whatever
// the schedule, once things have settled the session acts with the privileges the account holds: a privilege the
// edit revoked is gone (grant=false), one it granted is there (grant=true).
func c05LoginRace(grant bool) func() explore.SchedOutcome {
	return func() (out explore.SchedOutcome) {
		vrt.BeginSetup()
		accBefore, accAfter := world.Bits(ref.PReadChat, ref.PSendChat), world.Bits(ref.PReadChat)
		if grant {
			accBefore, accAfter = accAfter, accBefore
		}
		wd := world.New(world.Cfg{Accounts: []world.Acct{{Login: "guest", Name: "Guest"}, {Login: "admin", Name: "Admin", Password: "secret", Access: world.AllAccess},
			{Login: "vic", Name: "Victim", Password: "vp", Access: accBefore}}})
		defer wd.Close()
		// vic's connection is opened first: the default schedule completes the login before the edit
		v := wd.Dial("10.0.0.5:1005")
		v.Handshake()
		world.Quiet()
		adm, r := wd.Connect("10.0.0.1:1001", "admin", "secret", "adm")
		if r == nil || r.Err != 0 {
			out.Violations = append(out.Violations, explore.SchedV{Signature: "C05/login-race/setup", Detail: "admin login failed"})
			return out
		}
		v.Send(world.LoginTx("vic", "vp", ref.FS(ref.FUserName, "vic"), ref.F16(ref.FUserIconID, 1)))
		adm.Send(ref.Tx{Type: ref.TSetUser, Fields: []ref.Fld{ref.F(ref.FUserLogin, obf("vic")), ref.FS(ref.FUserName, "Victim"), ref.F(ref.FUserPassword, []byte{0}), ref.F(ref.FUserAccess, accAfter[:])}})
		vrt.EndSetup()
		vrt.Settle(10 * time.Second)
		adm.New()
		id := v.Req(ref.TChatSend, ref.FS(ref.FData, "hello"))
		vrt.Settle(10 * time.Second)
		rep := v.Reply(id)
		refused := rep != nil && rep.Err != 0
		got := false
		for _, t := range adm.New() {
			if t.Type == ref.TChatMsg {
				got = true
			}
		}
		if !v.Conn.Closed {
			if !grant && (got || !refused) {
				out.Violations = append(out.Violations, explore.SchedV{Signature: "C05/login-race/effect-without-privilege", Detail: fmt.Sprintf("the account lost send-chat while its client was logging in; afterwards the session's chat line was delivered=%v refused=%v", got, refused)})
			}
			if grant && (refused || !got) {
				out.Violations = append(out.Violations, explore.SchedV{Signature: "C05/login-race/refused-although-privileged", Detail: fmt.Sprintf("the account gained send-chat while its client was logging in; afterwards the session's chat line was delivered=%v refused=%v", got, refused)})
			}
		}
		for _, pn := range vrt.S.Panics() {
			out.Violations = append(out.Violations, explore.SchedV{Signature: "C05/login-race/panic/" + vrt.PanicSite(pn), Detail: pn})
		}
		out.Canon = fmt.Sprintf("delivered=%v refused=%v closed=%v", got, refused, v.Conn.Closed)
		return out
	}
}

func replayC05(w *explore.Worker, raw json.RawMessage) {
	var sr explore.SchedReplay
	if json.Unmarshal(raw, &sr) == nil && sr.Kind == "schedule" {
		_, out, err := explore.RunSchedule(sr.Choices, 20000, c05LoginRace(sr.Params == "grant"))
		if err != nil {
			w.Broken("replay: %v", err)
		}
		for _, v := range out.Violations {
			w.Violation(v.Signature, v.Detail, 0, sr)
		}
		return
	}
	var c c05Case
	if err := json.Unmarshal(raw, &c); err != nil {
		w.Broken("bad replay: %v", err)
		return
	}
	c05Check(w, c)
}
