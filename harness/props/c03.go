package props

import (
	"context"
	"encoding/binary"
	"encoding/json"
	"fmt"
	"os"
	"runtime"
	"strings"
	"time"

	"github.com/jhalter/mobius/verifh/explore"
	"github.com/jhalter/mobius/verifh/ref"
	"github.com/jhalter/mobius/verifh/vrt"
	"github.com/jhalter/mobius/verifh/vrt/vnet"
	"github.com/jhalter/mobius/verifh/world"
)

// C03: hostile input is contained to the offending connection.

func init() {
	register(&Prop{
		ID:    "C03",
		Level: "model_checking",
		Rule: "bounded mutation enumeration + E-SCHED scenarios on the real connection, transfer and accept loops with a logged-in sentinel: every single mutation (thorough: pairs of length mutations) of one canonical request per registered transaction type — " +
			"truncation at every byte with and without hang-up, every length-carrying word set to {0,1,2,v-1,v+1,0x7FFF,0xFFFF,0xFFFFFFFF}, every field dropped/duplicated/replaced by 0..5 bytes of 0x00/0xFF, 600 and 9000 bytes, unknown type — sent before login, after a guest login and after an administrator login; " +
			"mutated upload / folder-upload / folder-download streams and unknown or reused reference numbers on the transfer port; five concurrency scenarios explored with deviation-bounded DFS (incl. hold-back). " +
			"Oracle per execution: no goroutine dies with an un-recovered panic, nothing is wedged, the sentinel's request is answered while the hostile peer is silent, and after the hostile connections are gone the user list and the connection/transfer counters equal the baseline",
		Assumptions: []string{"a watchdog ends a worker whose current case runs for 30 s of wall time or 3 GiB of heap and reports that case (cap, not an oracle for slowness)", "allocation sizes from hostile length fields are capped at 1 MiB by the quantifier"},
		Run:            runC03,
		Replay:         replayC03,
		MinOutcomes:    5,
		QuickBudget:    200 * time.Second,
		ThoroughBudget: 25 * time.Minute,
	})
}

type c03Case struct {
	Port   string `json:"port"`   // control | transfer
	State  int    `json:"state"`  // control: 0 before login, 1 after guest login, 2 after admin login
	Kind   string `json:"kind"`   // corpus entry
	Mut    string `json:"mut"`    // description of the mutation
	Bytes  []byte `json:"bytes"`  // what the hostile peer sends (after its login, if any)
	Hangup bool   `json:"hangup"` // the hostile peer closes afterwards (otherwise it goes silent first)
	Xfer   string `json:"xfer"`   // transfer: upload | folderup | folderdown | download | unknownref
}

var c03Current string // for the watchdog

func c03Baseline(wd *world.World, sentinel *world.Client) string {
	id := sentinel.Req(ref.TGetUserNameList)
	world.Settle(20 * time.Second)
	r := sentinel.Reply(id)
	if r == nil {
		return "sentinel-not-answered"
	}
	var users []string
	for _, b := range r.GetAll(ref.FUserNameWithInfo) {
		u, err := ref.DecodeUserInfo(b)
		if err != nil {
			users = append(users, "undecodable")
			continue
		}
		users = append(users, fmt.Sprintf("%d/%s", u.ID, u.Name))
	}
	if p := c03Probe(sentinel, r); p != "" {
		return p
	}
	// the transfer manager must be usable too (a lock left held by a hostile transfer would show here)
	bid := sentinel.Req(ref.TDownloadBanner)
	world.Settle(20 * time.Second)
	if sentinel.Reply(bid) == nil {
		return "sentinel-transfer-request-not-answered"
	}
	st := wd.Srv.CurrentStats()
	return fmt.Sprintf("users=%v connected=%v downloads=%v uploads=%v waiting=%v", users, st["CurrentlyConnected"], st["DownloadsInProgress"], st["UploadsInProgress"], st["WaitingDownloads"])
}

// c03Probe: what an operator's client does all day - client info of every listed user, the file
// lists of the root and of the upload folder: whatever a hostile peer left behind (a pending transfer
// with odd fields, an uploaded file with an odd name), each request is answered.
func c03Probe(sentinel *world.Client, userList *ref.Tx) string {
	var ids []uint32
	for _, b := range userList.GetAll(ref.FUserNameWithInfo) {
		if u, err := ref.DecodeUserInfo(b); err == nil {
			ids = append(ids, sentinel.Req(ref.TGetClientInfoText, ref.F16(ref.FUserID, u.ID)))
		}
	}
	ids = append(ids, sentinel.Req(ref.TGetFileNameList), sentinel.Req(ref.TGetFileNameList, ref.F(ref.FFilePath, ref.PathBytes("Uploads"))))
	world.Settle(20 * time.Second)
	for i, id := range ids {
		if sentinel.Reply(id) == nil {
			what := "client-info"
			if i >= len(ids)-2 {
				what = "file-list"
			}
			return "sentinel-" + what + "-request-not-answered"
		}
	}
	return ""
}

func c03World() (*world.World, *world.Client, bool) {
	wd := world.New(world.Cfg{
		Board: "board text\r", NewsYAML: c05News, Files: c05Files, Agreement: "agree", PreserveForks: true,
		Accounts: []world.Acct{
			{Login: "guest", Name: "Guest", Access: world.Bits(ref.PReadChat, ref.PSendChat, ref.PAnyName, ref.PDownloadFile, ref.PUploadFile, ref.PNewsReadArt)},
			{Login: "admin", Name: "Admin", Password: "secret", Access: world.AllAccess},
			{Login: "obs", Name: "obs", Password: "op", Access: world.Without(world.AllAccess, ref.PNoAgreement)},
			{Login: "vic", Name: "Victim", Password: "vp", Access: world.Bits(ref.PReadChat)},
		},
	})
	s, r := wd.Connect("10.0.0.3:1003", "obs", "op", "obs")
	return wd, s, r != nil && r.Err == 0
}

func c03Run(w *explore.Worker, c c03Case) {
	c03Current = js(map[string]interface{}{"port": c.Port, "state": c.State, "kind": c.Kind, "mut": c.Mut})
	fail := func(clause, detail string) {
		w.Violation("C03/"+c.Port+"/"+clause+"/kind="+c.Kind, fmt.Sprintf("state %d mutation %s (%d bytes sent, hangup=%v): %s", c.State, c.Mut, len(c.Bytes), c.Hangup, detail), len(c.Bytes), c)
	}
	s := seq(func() {
		wd, sentinel, ok := c03World()
		defer wd.Close()
		if !ok {
			w.Broken("C03: sentinel login failed")
			return
		}
		base := c03Baseline(wd, sentinel)
		var hostile *vnet.Conn
		if c.Port == "control" {
			h := wd.Dial("10.0.0.66:6666")
			hostile = h.Conn
			h.Handshake()
			switch c.State {
			case 1:
				h.Login123("", "", "hh", 1)
			case 2:
				h.Login123("admin", "secret", "hh", 1)
			}
			world.Settle(5 * time.Second)
			hostile.Feed(c.Bytes)
		} else {
			// transfer port: a legitimate guest obtains a reference number, the stream on the transfer port is hostile
			g, r := wd.Connect("10.0.0.66:6000", "admin", "secret", "hh")
			if r == nil || r.Err != 0 {
				w.Broken("C03: transfer requester login failed")
				return
			}
			var id uint32
			switch c.Xfer {
			case "upload":
				id = g.Req(ref.TUploadFile, ref.FS(ref.FFileName, "up.bin"), ref.F(ref.FFilePath, ref.PathBytes("Uploads")), ref.F32(ref.FTransferSize, 300))
			case "folderup":
				id = g.Req(ref.TUploadFldr, ref.FS(ref.FFileName, "updir"), ref.F(ref.FFilePath, ref.PathBytes("Uploads")), ref.F32(ref.FTransferSize, 6), ref.F16(ref.FFolderItemCount, 3))
			case "folderdown":
				id = g.Req(ref.TDownloadFldr, ref.FS(ref.FFileName, "dir"))
			case "download":
				id = g.Req(ref.TDownloadFile, ref.FS(ref.FFileName, "f.txt"))
			}
			world.Quiet()
			refnum := []byte{9, 9, 9, 9}
			if c.Xfer != "unknownref" {
				rep := g.Reply(id)
				if rep == nil || rep.Err != 0 {
					w.Broken("C03: transfer request refused")
					return
				}
				refnum, _ = rep.Get(ref.FRefNum)
			}
			base = c03Baseline(wd, sentinel) // baseline with the requester connected
			hostile = wd.DialTransfer("10.0.0.66:6001")
			stream := append([]byte(nil), c.Bytes...)
			if len(stream) >= 8 && string(stream[:4]) == "HTXF" && c.Xfer != "unknownref" {
				copy(stream[4:8], refnum)
			}
			hostile.Feed(stream)
		}
		// (b) while the hostile peer is silent, the sentinel is served
		world.Settle(20 * time.Second)
		id := sentinel.Req(ref.TGetUserNameList)
		world.Settle(20 * time.Second)
		if r := sentinel.Reply(id); r == nil {
			fail("sentinel-not-answered-while-hostile-connection-open", fmt.Sprintf("blocked threads: %v", vrt.Blocked()))
		} else if p := c03Probe(sentinel, r); p != "" {
			fail("sentinel-not-answered-while-hostile-connection-open", p)
		}
		if wdg := vrt.Wedged(); len(wdg) > 0 {
			fail("wedged", strings.Join(wdg, ", "))
		}
		// (c) after the hostile connection is gone the baseline is restored
		hostile.CloseWrite()
		world.Settle(30 * time.Second)
		after := c03Baseline(wd, sentinel)
		if after != base {
			fail("baseline-not-restored-after-hostile-connection-closed", fmt.Sprintf("before %s, after %s", base, after))
		}
		if wdg := vrt.Wedged(); len(wdg) > 0 {
			fail("wedged", strings.Join(wdg, ", "))
		}
		w.Outcome(fmt.Sprintf("%s %d %s closed=%v", c.Port, c.State, c.Kind, hostile.Closed))
	})
	if s.Status == vrt.StatusHorizon {
		fail("step-horizon-hit", "the execution did not become quiescent within the step horizon (live-lock?)")
	}
	for _, p := range s.Panics() {
		if strings.HasPrefix(p, "main: ") {
			w.Broken("C03: harness panic: %s", p)
			continue
		}
		fail("unrecovered-panic-would-kill-the-server/"+vrt.PanicSite(p), p)
	}
}

// ---- mutation engine ----

type c03Mut struct {
	desc  string
	bytes []byte
}

var c03Words32 = []uint32{0, 1, 2, 0x7FFF, 0xFFFF, 0x100000, 0xFFFFFFFF}
var c03Words16 = []uint16{0, 1, 2, 0x7FFF, 0xFFFF}

func c03Mutations(t ref.Tx, thorough bool) []c03Mut {
	base := t.Encode()
	var out []c03Mut
	add := func(d string, b []byte) { out = append(out, c03Mut{d, b}) }
	keep := ref.Tx{Type: ref.TKeepAlive, ID: 0xEE}.Encode()
	// truncation at every byte
	for k := 0; k < len(base); k++ {
		add(fmt.Sprintf("truncate@%d", k), append([]byte(nil), base[:k]...))
	}
	withTail := func(b []byte) []byte { return append(append([]byte(nil), b...), keep...) }
	// header words
	put32 := func(off int, v uint32) []byte {
		b := append([]byte(nil), base...)
		binary.BigEndian.PutUint32(b[off:], v)
		return b
	}
	for _, w := range []struct {
		name string
		off  int
	}{{"total-size", 12}, {"data-size", 16}} {
		cur := binary.BigEndian.Uint32(base[w.off:])
		for _, v := range append(append([]uint32(nil), c03Words32...), cur-1, cur+1) {
			add(fmt.Sprintf("%s=%d", w.name, v), withTail(put32(w.off, v)))
		}
	}
	curN := binary.BigEndian.Uint16(base[20:])
	for _, v := range append(append([]uint16(nil), c03Words16...), curN-1, curN+1) {
		b := append([]byte(nil), base...)
		binary.BigEndian.PutUint16(b[20:], v)
		add(fmt.Sprintf("param-count=%d", v), withTail(b))
	}
	b := append([]byte(nil), base...)
	b[2], b[3] = 0xFF, 0xFE
	add("unknown-type", withTail(b))
	b = append([]byte(nil), base...)
	b[1] = 1
	add("is-reply", withTail(b))
	// fields
	repl := [][]byte{nil, {}, {0}, {0xFF}, {0, 0}, {0xFF, 0xFF}, {0, 0, 0}, {0, 0, 0, 0}, {0xFF, 0xFF, 0xFF, 0xFF}, {0, 0, 0, 0, 0}, make([]byte, 600), make([]byte, 9000)}
	for i := range t.Fields {
		for ri, r := range repl {
			m := t
			m.Fields = append([]ref.Fld(nil), t.Fields...)
			if r == nil {
				m.Fields = append(m.Fields[:i], m.Fields[i+1:]...)
				add(fmt.Sprintf("field%d-absent", i), withTail(m.Encode()))
				continue
			}
			m.Fields[i] = ref.Fld{ID: t.Fields[i].ID, Data: r}
			add(fmt.Sprintf("field%d-data#%d", i, ri), withTail(m.Encode()))
		}
		m := t
		m.Fields = append(append([]ref.Fld(nil), t.Fields...), t.Fields[i])
		add(fmt.Sprintf("field%d-duplicated", i), withTail(m.Encode()))
		// the field's own size word
		off := 22
		for j := 0; j < i; j++ {
			off += 4 + len(t.Fields[j].Data)
		}
		cur := uint16(len(t.Fields[i].Data))
		for _, v := range append(append([]uint16(nil), c03Words16...), cur-1, cur+1) {
			b := append([]byte(nil), base...)
			binary.BigEndian.PutUint16(b[off+2:], v)
			add(fmt.Sprintf("field%d-size=%d", i, v), withTail(b))
		}
		// inner structure of path / resume / sub-field blocks: every byte of small structured fields
		if len(t.Fields[i].Data) >= 2 && len(t.Fields[i].Data) <= 64 && (t.Fields[i].ID == ref.FFilePath || t.Fields[i].ID == ref.FFileNewPath || t.Fields[i].ID == ref.FNewsPath || t.Fields[i].ID == ref.FFileResumeData || t.Fields[i].ID == ref.FData) {
			for k := 0; k < len(t.Fields[i].Data) && k < 8; k++ {
				for _, v := range []byte{0, 1, 0x7F, 0xFF} {
					m := t
					m.Fields = append([]ref.Fld(nil), t.Fields...)
					d := append([]byte(nil), t.Fields[i].Data...)
					d[k] = v
					m.Fields[i] = ref.Fld{ID: t.Fields[i].ID, Data: d}
					add(fmt.Sprintf("field%d-byte%d=%d", i, k, v), withTail(m.Encode()))
				}
			}
		}
	}
	if thorough {
		// pairs: two length-carrying words of the same transaction set to hostile values together
		type wm struct {
			off  int
			size int
			name string
		}
		words := []wm{{12, 4, "total-size"}, {16, 4, "data-size"}, {20, 2, "param-count"}}
		off := 22
		for i, f := range t.Fields {
			words = append(words, wm{off + 2, 2, fmt.Sprintf("field%d-size", i)})
			off += 4 + len(f.Data)
		}
		vals := []uint32{0, 1, 0x7FFF, 0xFFFF}
		for x := 0; x < len(words); x++ {
			for y := x + 1; y < len(words); y++ {
				for _, vx := range vals {
					for _, vy := range vals {
						b := append([]byte(nil), base...)
						for _, p := range []struct {
							w wm
							v uint32
						}{{words[x], vx}, {words[y], vy}} {
							if p.w.size == 4 {
								binary.BigEndian.PutUint32(b[p.w.off:], p.v)
							} else {
								binary.BigEndian.PutUint16(b[p.w.off:], uint16(p.v))
							}
						}
						add(fmt.Sprintf("%s=%d+%s=%d", words[x].name, vx, words[y].name, vy), withTail(b))
					}
				}
			}
		}
	}
	return out
}

func c03Corpus() []struct {
	name string
	tx   ref.Tx
} {
	var out []struct {
		name string
		tx   ref.Tx
	}
	ctx := c05Ctx{obsID: 1, tgtID: 1, uID: 2}
	for _, k := range c05Kinds {
		t := k.Build(ctx)
		t.ID = 0x42
		out = append(out, struct {
			name string
			tx   ref.Tx
		}{k.Name, t})
	}
	extra := []struct {
		name string
		tx   ref.Tx
	}{
		{"login", world.LoginTx("guest", "", ref.FS(ref.FUserName, "hh"), ref.F16(ref.FUserIconID, 1))},
		{"agreed", ref.Tx{Type: ref.TAgreed, Fields: []ref.Fld{ref.FS(ref.FUserName, "hh"), ref.F16(ref.FUserIconID, 2), ref.F16(ref.FOptions, 4), ref.FS(ref.FAutoResponse, "away")}}},
		{"set-client-info", ref.Tx{Type: ref.TSetClientUserInfo, Fields: []ref.Fld{ref.FS(ref.FUserName, "hh2"), ref.F16(ref.FUserIconID, 2), ref.F16(ref.FOptions, 1)}}},
		{"long-name", ref.Tx{Type: ref.TSetClientUserInfo, Fields: []ref.Fld{ref.FS(ref.FUserName, strings.Repeat("N", 600)), ref.F16(ref.FUserIconID, 2)}}},
		{"user-list", ref.Tx{Type: ref.TGetUserNameList}},
		{"join-chat", ref.Tx{Type: ref.TJoinChat, Fields: []ref.Fld{ref.F32(ref.FChatID, 77)}}},
		{"leave-chat", ref.Tx{Type: ref.TLeaveChat, Fields: []ref.Fld{ref.F32(ref.FChatID, 77)}}},
		{"reject-chat", ref.Tx{Type: ref.TRejectChatInvite, Fields: []ref.Fld{ref.F32(ref.FChatID, 77)}}},
		{"chat-subject", ref.Tx{Type: ref.TSetChatSubject, Fields: []ref.Fld{ref.F32(ref.FChatID, 77), ref.FS(ref.FChatSubject, "s")}}},
		{"private-chat-line", ref.Tx{Type: ref.TChatSend, Fields: []ref.Fld{ref.FS(ref.FData, "x"), ref.F32(ref.FChatID, 77)}}},
		{"download-resume", ref.Tx{Type: ref.TDownloadFile, Fields: []ref.Fld{ref.FS(ref.FFileName, "f.txt"), ref.F(ref.FFileResumeData, ref.ResumeData(3, nil))}}},
		{"upload-resume", ref.Tx{Type: ref.TUploadFile, Fields: []ref.Fld{ref.FS(ref.FFileName, "new.txt"), ref.F(ref.FFilePath, ref.PathBytes("Uploads")), ref.F16(ref.FFileXferOptions, 1)}}},
		{"download-banner", ref.Tx{Type: ref.TDownloadBanner}},
		{"keepalive", ref.Tx{Type: ref.TKeepAlive}},
		{"get-info", ref.Tx{Type: ref.TGetFileInfo, Fields: []ref.Fld{ref.FS(ref.FFileName, "f.txt")}}},
		{"list-files", ref.Tx{Type: ref.TGetFileNameList, Fields: []ref.Fld{ref.F(ref.FFilePath, ref.PathBytes("dir"))}}},
	}
	for i := range extra {
		extra[i].tx.ID = 0x42
	}
	return append(out, extra...)
}

func c03TransferCases(thorough bool) []c03Case {
	var cs []c03Case
	info := ref.NewInfoFork("up.bin", "BINA", "hDmp", "c")
	good := append(ref.Preamble([]byte{0, 0, 0, 0}, 0), ref.FlatFile(info, []byte("0123456789"), []byte("rsrc"))...)
	addStream := func(x, d string, b []byte) {
		if x == "upload" && len(b) >= 56 && binary.BigEndian.Uint32(b[52:56]) > 1<<20 {
			return // a declared information-fork size above 1 MiB is outside the property's quantifier
		}
		cs = append(cs, c03Case{Port: "transfer", Xfer: x, Kind: x, Mut: d, Bytes: b, Hangup: true})
	}
	for k := 0; k <= len(good); k++ {
		addStream("upload", fmt.Sprintf("truncate@%d", k), good[:k])
	}
	// every 16/32-bit word of the header region set to hostile values
	hdr := 16 + ref.FlatFileHeaderLen(info)
	for off := 0; off+4 <= hdr && off+4 <= len(good); off += 2 {
		for _, v := range c03Words32 {
			if v > 0x100000 {
				continue // declared sizes on the transfer port are bounded by 1 MiB in the property's quantifier
			}
			b := append([]byte(nil), good...)
			binary.BigEndian.PutUint32(b[off:], v)
			addStream("upload", fmt.Sprintf("u32@%d=%d", off, v), b)
		}
		for _, v := range c03Words16 {
			b := append([]byte(nil), good...)
			binary.BigEndian.PutUint16(b[off:], v)
			addStream("upload", fmt.Sprintf("u16@%d=%d", off, v), b)
		}
	}
	// folder upload: item headers
	fu := ref.Preamble([]byte{0, 0, 0, 0}, 0)
	fu = append(fu, ref.ItemHeader(true, "sub")...)
	ff := ref.FlatFile(ref.NewInfoFork("x", "TEXT", "ttxt", ""), []byte("abc"), nil)
	fu = append(fu, ref.ItemHeader(false, "sub", "x")...)
	fu = append(fu, binary.BigEndian.AppendUint32(nil, uint32(len(ff)))...)
	fu = append(fu, ff...)
	for k := 16; k <= len(fu); k++ {
		addStream("folderup", fmt.Sprintf("truncate@%d", k), fu[:k])
	}
	for off := 16; off+2 <= 16+40 && off+2 <= len(fu); off++ {
		for _, v := range c03Words16 {
			b := append([]byte(nil), fu...)
			binary.BigEndian.PutUint16(b[off:], v)
			addStream("folderup", fmt.Sprintf("u16@%d=%d", off, v), b)
		}
	}
	// folder download: hostile action bytes and resume data
	fd := append(ref.Preamble([]byte{0, 0, 0, 0}, 0), 0, 3)
	rd := ref.ResumeData(1, nil)
	acts := [][]byte{{0, 1}, {0, 2}, {0, 3}, {0, 0}, {0xFF, 0xFF}, {0, 2, 0, 0}, {0, 2, 0xFF, 0xFF}, append([]byte{0, 2, 0, byte(len(rd))}, rd...), append([]byte{0, 2, 0, 10}, rd[:10]...), append([]byte{0, 2, 0, byte(len(rd))}, append(rd[:41], 0xFF)...)}
	for i, a := range acts {
		for j, b := range acts {
			s := append(append(append([]byte(nil), fd...), a...), b...)
			addStream("folderdown", fmt.Sprintf("actions#%d,%d", i, j), s)
		}
	}
	for _, x := range []string{"download", "unknownref"} {
		pre := ref.Preamble([]byte{0, 0, 0, 0}, 0)
		for k := 0; k <= 16; k++ {
			addStream(x, fmt.Sprintf("truncate@%d", k), pre[:k])
		}
		b := append([]byte(nil), pre...)
		b[0] = 'X'
		addStream(x, "bad-protocol", b)
	}
	return cs
}

func c03Cases(thorough bool) []c03Case {
	var cs []c03Case
	for _, e := range c03Corpus() {
		for _, m := range c03Mutations(e.tx, thorough) {
			for state := 0; state < 3; state++ {
				if state == 0 && !strings.HasPrefix(m.desc, "truncate") && e.name != "login" && !thorough && len(m.bytes) > 0 && (len(m.bytes)%3 != 0) {
					continue // before login the first transaction is treated as a login whatever its type: quick tier samples deterministically
				}
				hang := strings.HasPrefix(m.desc, "truncate")
				cs = append(cs, c03Case{Port: "control", State: state, Kind: e.name, Mut: m.desc, Bytes: m.bytes, Hangup: hang})
			}
		}
	}
	return append(cs, c03TransferCases(thorough)...)
}

// ---- concurrency scenarios (E-SCHED) ----

func c03Scenario(name string) func() explore.SchedOutcome {
	return func() (out explore.SchedOutcome) {
		vrt.BeginSetup()
		wd, sentinel, ok := c03World()
		defer wd.Close()
		fail := func(clause, detail string) {
			out.Violations = append(out.Violations, explore.SchedV{Signature: "C03/scenario-" + name + "/" + clause, Detail: detail})
		}
		if !ok {
			fail("setup", "sentinel login failed")
			return
		}
		base := c03Baseline(wd, sentinel)
		var hostiles []*vnet.Conn
		var listID uint32
		kind, flood := name, c03Flood
		if name == "SC6s" { // the same scenario with fewer pending replies, explored one deviation deeper
			kind, flood = "SC6", 30
		}
		if name == "SC6r" { // the same scenario, the backlog drained under the least favourable schedule
			kind, flood = "SC6", 100
		}
		switch kind {
		case "SC1": // account changes by an administrator while a connection is between registration and authentication
			adm, _ := wd.Connect("10.0.0.9:1009", "admin", "secret", "adm")
			base = c03Baseline(wd, sentinel)
			h := wd.Dial("10.0.0.66:6666")
			hostiles = append(hostiles, h.Conn)
			h.Handshake()
			h.Login123("vic", "vp", "vv", 1)
			adm.Send(ref.Tx{Type: ref.TSetUser, Fields: []ref.Fld{ref.F(ref.FUserLogin, obf("vic")), ref.FS(ref.FUserName, "V2"), ref.F(ref.FUserPassword, []byte{0}), ref.F(ref.FUserAccess, make([]byte, 8))}})
			adm.Send(ref.Tx{Type: ref.TDeleteUser, Fields: []ref.Fld{ref.F(ref.FUserLogin, obf("vic"))}})
		case "SC2": // two connections from one address through the real accept loop (per-address limiter table)
			ln := &vnet.Listener{}
			ctx, cancel := context.WithCancel(context.Background())
			defer cancel()
			vrt.GoNamed("serve", func() { _ = wd.Srv.Serve(ctx, ln) })
			for i := 0; i < 2; i++ {
				c := vnet.NewConn(fmt.Sprintf("s%d", i), fmt.Sprintf("10.0.0.%d:70%d", 66+i, i))
				c.Feed(ref.Handshake())
				lt := world.LoginTx("", "", ref.FS(ref.FUserName, "hh"), ref.F16(ref.FUserIconID, 1))
				lt.ID = 7
				c.Feed(lt.Encode())
				ln.Dial(c)
				hostiles = append(hostiles, c)
			}
			defer ln.Close()
		case "SC3": // one reference number presented on two transfer connections at once
			g, _ := wd.Connect("10.0.0.66:6000", "admin", "secret", "hh")
			id := g.Req(ref.TDownloadFile, ref.FS(ref.FFileName, "f.txt"))
			world.Quiet()
			rep := g.Reply(id)
			if rep == nil {
				fail("setup", "download refused")
				return
			}
			refnum, _ := rep.Get(ref.FRefNum)
			base = c03Baseline(wd, sentinel)
			for i := 0; i < 2; i++ {
				c := wd.DialTransfer(fmt.Sprintf("10.0.0.66:600%d", i+1))
				c.Feed(ref.Preamble(refnum, 0))
				hostiles = append(hostiles, c)
			}
		case "SC4": // a client that stops reading while a broadcast to it is in flight
			h, _ := wd.Connect("10.0.0.66:6666", "", "", "hh")
			hostiles = append(hostiles, h.Conn)
			h.Conn.Stalled = true
			g, _ := wd.Connect("10.0.0.9:1009", "admin", "secret", "adm")
			base = "" // recomputed below, the hostile peer is a legitimate (if deaf) user here
			g.Send(ref.Tx{Type: ref.TUserBroadcast, Fields: []ref.Fld{ref.FS(ref.FData, strings.Repeat("b", 40000))}})
			g.Send(ref.Tx{Type: ref.TChatSend, Fields: []ref.Fld{ref.FS(ref.FData, "hello")}})
		case "SC6": // a client that stops reading and keeps asking: hundreds of replies to it are pending at once
			h, _ := wd.Connect("10.0.0.66:6666", "", "", "hh")
			hostiles = append(hostiles, h.Conn)
			h.Conn.Stalled = true
			base = ""
			for i := 0; i < flood; i++ {
				h.Send(ref.Tx{Type: ref.TGetUserNameList})
			}
		case "SC7": // a guest uploads a file, then a file whose name makes it the first one's information fork
			h, _ := wd.Connect("10.0.0.66:6666", "admin", "secret", "hh")
			hostiles = append(hostiles, h.Conn)
			junk := make([]byte, 74)
			junk[70] = 0x70 // read as an information fork this announces a 28,672-byte name
			for i, up := range []struct {
				name string
				data []byte
			}{{".info_f.txt", junk}, {".info_inner.txt", junk}} { // f.txt (root) and dir/inner.txt exist and have no stored information fork
				fs := []ref.Fld{ref.FS(ref.FFileName, up.name), ref.F32(ref.FTransferSize, 300)}
				if i == 1 {
					fs = append(fs, ref.F(ref.FFilePath, ref.PathBytes("dir")))
				}
				id := h.Req(ref.TUploadFile, fs...)
				world.Settle(5 * time.Second)
				rep := h.Reply(id)
				if rep == nil || rep.Err != 0 {
					continue // refusing such a name is fine
				}
				refnum, _ := rep.Get(ref.FRefNum)
				x := wd.DialTransfer(fmt.Sprintf("10.0.0.66:60%d", 10+i))
				x.Feed(append(ref.Preamble(refnum, 0), ref.FlatFile(ref.NewInfoFork(up.name, "TEXT", "ttxt", ""), up.data, nil)...))
				world.Settle(10 * time.Second)
			}
			base = ""
		case "SC8": // an administrator makes aliases that point at themselves (the named file does not exist, no new path is given)
			h, _ := wd.Connect("10.0.0.66:6666", "admin", "secret", "hh")
			hostiles = append(hostiles, h.Conn)
			h.Req(ref.TMakeFileAlias, ref.FS(ref.FFileName, "loop"))
			h.Req(ref.TMakeFileAlias, ref.FS(ref.FFileName, "loop"), ref.F(ref.FFilePath, ref.PathBytes("Uploads")), ref.F(ref.FFileNewPath, ref.PathBytes("Uploads")))
			h.Req(ref.TMakeFileAlias, ref.FS(ref.FFileName, "dir"), ref.F(ref.FFileNewPath, ref.PathBytes("dir"))) // dir/dir -> dir
			world.Settle(5 * time.Second)
			base = ""
		case "SC10": // a forged invitation: the chat it names does not exist; the invited client accepts, then declines
			h, _ := wd.Connect("10.0.0.66:6666", "", "", "hh")
			hostiles = append(hostiles, h.Conn)
			base = ""
			for _, cid := range []uint32{0xdeadbeef, 0} {
				h.Req(ref.TInviteToChat, ref.F16(ref.FUserID, 1), ref.F32(ref.FChatID, cid))
				world.Settle(2 * time.Second)
				sentinel.Req(ref.TJoinChat, ref.F32(ref.FChatID, cid))
				world.Settle(2 * time.Second)
				sentinel.Req(ref.TRejectChatInvite, ref.F32(ref.FChatID, cid))
				world.Settle(2 * time.Second)
				sentinel.Req(ref.TSetChatSubject, ref.F32(ref.FChatID, cid), ref.FS(ref.FChatSubject, "s"))
				world.Settle(2 * time.Second)
			}
		case "SC9": // a client deletes a file while the sentinel asks for the list of that folder
			h, _ := wd.Connect("10.0.0.66:6666", "admin", "secret", "hh")
			hostiles = append(hostiles, h.Conn)
			base = ""
			h.Send(ref.Tx{Type: ref.TDeleteFile, Fields: []ref.Fld{ref.FS(ref.FFileName, "f.txt")}})
			listID = sentinel.Send(ref.Tx{Type: ref.TGetFileNameList})
		case "SC5": // a client that disconnects while a broadcast to it is in flight
			g, _ := wd.Connect("10.0.0.9:1009", "admin", "secret", "adm")
			base = c03Baseline(wd, sentinel)
			h, _ := wd.Connect("10.0.0.66:6666", "", "", "hh")
			hostiles = append(hostiles, h.Conn)
			g.Send(ref.Tx{Type: ref.TUserBroadcast, Fields: []ref.Fld{ref.FS(ref.FData, strings.Repeat("b", 40000))}})
			h.Conn.Reset()
		}
		sid := sentinel.Send(ref.Tx{Type: ref.TGetUserNameList})
		vrt.EndSetup()
		vrt.Settle(20 * time.Second)
		if sentinel.Reply(sid) == nil {
			fail("sentinel-not-answered", fmt.Sprintf("blocked: %v", vrt.Blocked()))
		}
		if listID != 0 && sentinel.Reply(listID) == nil {
			fail("sentinel-file-list-not-answered", "the list of a folder in which another client deletes a file at the same moment")
		}
		if kind == "SC4" || kind == "SC6" {
			// the deaf client holds senders to itself blocked; everybody else must still be served
			id := sentinel.Req(ref.TGetUserNameList)
			vrt.Settle(20 * time.Second)
			if sentinel.Reply(id) == nil {
				fail("head-of-line-blocking", fmt.Sprintf("a client that does not read blocks replies to others: %v", vrt.Blocked()))
			}
			for _, h := range hostiles {
				h.Stalled = false
			}
			if name == "SC6r" {
				// delivering one pending reply must not cost more the more replies are pending (a burst of n messages
				// would otherwise keep the server busy for n*n steps while everybody waits).  Scheduling steps plus the
				// goroutines readied by condition-variable broadcasts, under the schedule that runs the sender queued
				// last first, are a deterministic measure of that work.
				vrt.ReverseDefault(true)
				before := vrt.S.Steps + vrt.CondWakeups
				vrt.Settle(40 * time.Second)
				used := vrt.S.Steps + vrt.CondWakeups - before
				vrt.ReverseDefault(false)
				if used > 20*flood {
					fail("delivery-cost-grows-with-the-backlog", fmt.Sprintf("draining %d pending replies took %d scheduling steps and goroutine wake-ups (%d per reply)", flood, used, used/flood))
				}
			}
		} else if wdg := vrt.Wedged(); len(wdg) > 0 {
			fail("wedged", strings.Join(wdg, ", "))
		}
		for _, h := range hostiles {
			h.CloseWrite()
		}
		vrt.Settle(40 * time.Second)
		after := c03Baseline(wd, sentinel)
		if name == "SC1" || name == "SC3" || name == "SC5" {
			if after != base {
				fail("baseline-not-restored", fmt.Sprintf("before %s, after %s", base, after))
			}
		} else if !strings.Contains(after, "users=") {
			fail("sentinel-not-answered", after)
		}
		if wdg := vrt.Wedged(); len(wdg) > 0 {
			fail("wedged", strings.Join(wdg, ", "))
		}
		for _, p := range vrt.S.Panics() {
			fail("unrecovered-panic-would-kill-the-server/"+vrt.PanicSite(p), p)
		}
		out.Canon = after
		return out
	}
}

var c03Scenarios = []string{"SC1", "SC2", "SC3", "SC4", "SC5", "SC6", "SC6s", "SC6r", "SC7", "SC8", "SC9", "SC10"}

// c03Flood is the number of requests the deaf client of SC6 sends (each leaves one reply pending for it).
var c03Flood = 300

func c03Watchdog(w *explore.Worker, outPath string) {
	go func() {
		last, since := "", time.Now()
		for {
			time.Sleep(500 * time.Millisecond)
			cur := c03Current
			if cur != last {
				last, since = cur, time.Now()
			}
			var ms runtime.MemStats
			runtime.ReadMemStats(&ms)
			if cur != "" && (time.Since(since) > 30*time.Second || ms.HeapAlloc > 3<<30) {
				w.Violation("C03/runaway/handler-does-not-terminate-or-allocates-without-bound", fmt.Sprintf("case %s ran for %s with %d MiB of heap: the worker was ended", cur, time.Since(since).Round(time.Second), ms.HeapAlloc>>20), 0, map[string]string{"case": cur})
				w.Cap("a worker was ended by the watchdog; the rest of its share was not explored")
				_ = w.WriteResult(outPath)
				os.Exit(0)
			}
		}
	}()
}

func runC03(w *explore.Worker) {
	if p := os.Getenv("VERIF_WORKER_OUT"); p != "" {
		c03Watchdog(w, p)
	}
	if vrt.RaceEnabled {
		// the race-oracle pass has a short budget and the corpus would use all of it: the scenarios with real
		// concurrency between connections (the accept loop, one reference number on two transfer connections, account
		// changes against a half-open connection) go first there
		for _, sc := range []string{"SC2", "SC3", "SC1"} {
			c03Current = ""
			explore.ExploreSchedules(w, explore.SchedConfig{Harness: "C03" + sc, Bound: 1, FreeCost: 1, MaxSteps: 50000, Suspend: true}, c03Scenario(sc))
		}
	}
	// the mutation corpus first: the scenario exploration below gets whatever budget is left
	cs := c03Cases(w.Thorough)
	for i, c := range cs {
		if !w.Next() {
			continue
		}
		if w.Expired() {
			w.Cap("time budget reached")
			break
		}
		w.Eval()
		w.AddStates(1)
		w.AddTransitions(1)
		c03Run(w, c)
		if i%2999 == 0 {
			w.Sample(map[string]interface{}{"port": c.Port, "state": c.State, "kind": c.Kind, "mutation": c.Mut, "bytes_sent": len(c.Bytes)})
		}
	}
	bound := 1
	if w.Thorough {
		bound = 2
	}
	for _, sc := range c03Scenarios {
		c03Current = "" // the watchdog guards single mutation cases; schedule exploration is bounded by the step horizon
		b := bound
		switch sc {
		case "SC7", "SC8", "SC10":
			b = 0 // a sequence, not a race
		case "SC6", "SC6r":
			b = 0 // 300 pending replies: thousands of steps per execution, default schedule and hold-backs only
		case "SC6s":
			b = bound - 1
		}
		explore.ExploreSchedules(w, explore.SchedConfig{Harness: "C03" + sc, Bound: b, FreeCost: 1, MaxSteps: 50000, Suspend: true}, c03Scenario(sc))
	}
	w.Max("scenario_deviation_bound_completed", bound)
	c03Current = ""
	if w.Index == 0 {
		w.Count("mutants", len(cs))
	}
}

func replayC03(w *explore.Worker, raw json.RawMessage) {
	var sr explore.SchedReplay
	if json.Unmarshal(raw, &sr) == nil && sr.Kind == "schedule" {
		_, out, err := explore.RunSchedule(sr.Choices, 50000, c03Scenario(strings.TrimPrefix(sr.Harness, "C03")))
		if err != nil {
			w.Broken("replay: %v", err)
		}
		for _, v := range out.Violations {
			w.Violation(v.Signature, v.Detail, 0, sr)
		}
		return
	}
	var c c03Case
	if err := json.Unmarshal(raw, &c); err != nil {
		w.Broken("bad replay: %v", err)
		return
	}
	c03Run(w, c)
}
