package props

import (
	"encoding/binary"
	"encoding/json"
	"fmt"
	"os"
	"sort"
	"strconv"
	"strings"
	"time"

	"github.com/jhalter/mobius/hotline"
	"github.com/jhalter/mobius/verifh/explore"
	"github.com/jhalter/mobius/verifh/ref"
	"github.com/jhalter/mobius/verifh/vrt"
	"github.com/jhalter/mobius/verifh/world"
)

// C12: chat reaches exactly its audience.

func init() {
	register(&Prop{
		ID:    "C12",
		Level: "model_checking",
		Rule: "E-SEQ: breadth-first search over chat histories (connect, disconnect, public line plain/emote/zero-chat-id/over-long, invite to new chat, invite to existing chat, join, leave, decline, set subject, private line) of 3 clients " +
			"with (read,send) chat privileges (1,1),(0,1),(1,0) and name lengths 1/13/14, each history replayed on a fresh real server; after the last operation the set of (recipient, transaction) deliveries is compared with a reference chat model; " +
			"states deduplicated by connected set + chat memberships + subjects. " +
			"E-SCHED: from three base states (a private chat with two members and a third user invited; all three joined; two private chats) every pair of operations by two different clients (public/private line, invite, join, leave, decline, subject) is issued concurrently and every schedule with at most 1 (thorough 2) deviations is executed: " +
			"what both sequential orders deliver must be delivered exactly as often, what only one of them delivers may be, nothing else, and the memberships afterwards are those of one of the orders",
		Assumptions:    []string{"3 clients, at most 2 private chats; operations address existing users and chats; default schedule (the quantifier's interleavings are interleavings of operations, i.e. histories)"},
		Run:            runC12,
		Replay:         replayC12,
		MinOutcomes:    20,
		QuickBudget:    400 * time.Second,
		ThoroughBudget: 25 * time.Minute,
	})
}

var c12Accounts = []world.Acct{
	{Login: "guest", Name: "Guest"},
	{Login: "s0", Name: "a", Password: "p", Access: world.Bits(ref.PReadChat, ref.PSendChat, ref.POpenChat, ref.PAnyName)},
	{Login: "s1", Name: "thirteenchars", Password: "p", Access: world.Bits(ref.PSendChat, ref.POpenChat, ref.PAnyName)},
	{Login: "s2", Name: "fourteen_chars", Password: "p", Access: world.Bits(ref.PReadChat, ref.POpenChat, ref.PAnyName)},
}

var c12Names = []string{"a", "thirteenchars", "fourteen_chars"}
var c12CanRead = []bool{true, false, true}
var c12CanSend = []bool{true, true, false}

type c12Chat struct {
	id      []byte
	members map[int]bool
	subject string
}

type c12World struct {
	wd      *world.World
	cl      [3]*world.Client
	on      [3]bool
	ids     [3]uint16
	chats   []*c12Chat
	viol    []explore.SchedV
	nconn   int
	banned  map[string]bool // "k/c": k left or declined chat c and has not re-joined
	deaf    [3]bool         // the client has stopped reading its socket
	canRead [3]bool         // current read-chat privilege of each slot's account (an administrator may edit it)
	// mode 0: issue the request, run to quiescence, update the model (sequential histories);
	// mode 1: issue the request only (one of two concurrent clients; the model copy is thrown away);
	// mode 2: update the model only and remember the expected deliveries (reference for one order of a pair)
	login      [3]string // current login of each slot's account ("" = the initial s<k>); a rename changes it
	wrapped    [3]bool   // the id counter was driven round: the next connection of the slot gets its old id again
	mode       int
	lastExpect []c12Delivery
	lastKnown  bool
}

// cloneModel copies the reference state (the clients are shared: a clone in mode 2 never uses them).
func (x *c12World) cloneModel(mode int) *c12World {
	y := &c12World{wd: x.wd, cl: x.cl, on: x.on, ids: x.ids, nconn: x.nconn, banned: map[string]bool{}, deaf: x.deaf, canRead: x.canRead, login: x.login, wrapped: x.wrapped, mode: mode}
	for k, v := range x.banned {
		y.banned[k] = v
	}
	for _, c := range x.chats {
		n := &c12Chat{id: c.id, members: map[int]bool{}, subject: c.subject}
		for m := range c.members {
			n.members[m] = true
		}
		y.chats = append(y.chats, n)
	}
	return y
}

func (x *c12World) loginOf(k int) string {
	if x.login[k] != "" {
		return x.login[k]
	}
	return fmt.Sprintf("s%d", k)
}

func (x *c12World) fail(clause, detail string) {
	x.viol = append(x.viol, explore.SchedV{Signature: "C12/" + clause, Detail: detail})
}

func c12Text(variant string) (msg string, emote bool, zeroID bool) {
	switch variant {
	case "plain":
		return "hello", false, false
	case "emote":
		return "waves", true, false
	case "emote4": // the emote option sent as a 4-byte integer
		return "waves4", true, false
	case "zero":
		return "frog", false, true
	case "long":
		return strings.Repeat("x", 8176), false, false // formatted: 17 + 8176 = 8193 bytes -> cut to 8192
	case "edge":
		return strings.Repeat("y", 8175), false, false // formatted: exactly 8192 bytes
	case "longemote":
		return strings.Repeat("z", 8300), true, false
	}
	panic(variant)
}

// c12Format is the protocol's chat line: carriage return, the name right-aligned in (and cut to)
// 13 characters, a colon and two spaces, the text; the emote form is "*** name text"; the whole line
// is cut to 8192 bytes.
func c12Format(name, msg string, emote bool) string {
	var s string
	if emote {
		s = "\r*** " + name + " " + msg
	} else {
		n := name
		if len(n) > 13 {
			n = n[:13]
		}
		s = "\r" + strings.Repeat(" ", 13-len(n)) + n + ":  " + msg
	}
	if len(s) > 8192 {
		s = s[:8192]
	}
	return s
}

type c12Delivery struct {
	to   int
	what string
}

func (x *c12World) apply(op string, check bool) bool {
	p := strings.Split(op, ":")
	k, _ := strconv.Atoi(p[1])
	var expect []c12Delivery
	expectKnown := true
	chatArg := func(i int) *c12Chat {
		c, _ := strconv.Atoi(p[i])
		if c >= len(x.chats) {
			return nil
		}
		return x.chats[c]
	}
	mark := [3]int{}
	for i := range x.cl {
		if x.on[i] {
			x.cl[i].Poll()
			mark[i] = len(x.cl[i].Inbox)
		}
	}
	settle := func() {
		if x.mode == 0 {
			world.Quiet()
		}
	}
	req := func(k int, typ uint16, fs ...ref.Fld) uint32 {
		if x.mode == 2 {
			return 0
		}
		return x.cl[k].Req(typ, fs...)
	}
	if x.deaf[k] && p[0] != "off" && !strings.HasPrefix(p[0], "edit") {
		return false // a client that does not read cannot see replies: it issues nothing further
	}
	switch p[0] {
	case "on":
		if x.on[k] {
			return false
		}
		x.nconn++
		before := x.wd.UserList(x.probe())
		x.cl[k] = x.wd.Dial(fmt.Sprintf("10.0.%d.%d:%d", x.nconn, k+1, 4000+k))
		x.cl[k].Handshake()
		x.cl[k].Login123(x.loginOf(k), "p", c12Names[k], 1)
		settle()
		x.on[k] = true
		x.wrapped[k] = false
		x.ids[k] = 0
		old := map[uint16]bool{}
		for _, u := range before {
			old[u.ID] = true
		}
		for _, u := range x.wd.UserList(x.probe()) {
			if !old[u.ID] {
				x.ids[k] = u.ID
			}
		}
		if os.Getenv("C12DEBUG") != "" {
			fmt.Fprintf(os.Stderr, "on: slot %d new id %d\n", k, x.ids[k])
		}
		expectKnown = false
	case "edit", "editb", "editr":
		// an administrator toggles the read-chat privilege of the slot's account while its session is live
		acc := world.Bits(ref.PSendChat, ref.POpenChat, ref.PAnyName)
		if !c12CanSend[k] {
			acc = world.Bits(ref.POpenChat, ref.PAnyName)
		}
		x.canRead[k] = !x.canRead[k]
		if x.canRead[k] {
			acc[ref.PReadChat/8] |= 0x80 >> uint(ref.PReadChat%8)
		}
		var id uint32
		switch p[0] {
		case "editb": // the multi-account editor
			id = x.probe().Req(ref.TUpdateUser, ref.F(ref.FData, subFields(ref.F(ref.FUserLogin, obf(x.loginOf(k))), ref.FS(ref.FUserName, c12Names[k]), ref.F(ref.FUserPassword, []byte{0}), ref.F(ref.FUserAccess, acc[:]))))
		case "editr": // renamed and edited in one entry of the multi-account editor
			to := x.loginOf(k) + "r"
			id = x.probe().Req(ref.TUpdateUser, ref.F(ref.FData, subFields(ref.F(ref.FData, obf(x.loginOf(k))), ref.F(ref.FUserLogin, obf(to)), ref.FS(ref.FUserName, c12Names[k]), ref.F(ref.FUserPassword, []byte{0}), ref.F(ref.FUserAccess, acc[:]))))
			x.login[k] = to
		default:
			id = x.probe().Req(ref.TSetUser, ref.F(ref.FUserLogin, obf(x.loginOf(k))), ref.FS(ref.FUserName, c12Names[k]), ref.F(ref.FUserPassword, []byte{0}), ref.F(ref.FUserAccess, acc[:]))
		}
		settle()
		if r := x.probe().Reply(id); r == nil || r.Err != 0 {
			x.fail("edit/set-user-refused", fmt.Sprint(r))
		}
		expectKnown = false
	case "wrap":
		// 65,5xx connections come and go until the 16-bit id counter stands just before the id slot k had when it
		// was last connected: the next connection gets that id again
		if x.on[k] || x.ids[k] == 0 || x.mode != 0 {
			return false
		}
		inUse := map[uint16]bool{}
		for _, u := range x.wd.UserList(x.probe()) {
			inUse[u.ID] = true
		}
		want := x.ids[k] - 1 // the last free id before the old one (ids in use are skipped by the server)
		for want == 0 || inUse[want] {
			want--
		}
		vrt.Unmanaged(func() {
			cc := &hotline.ClientConn{}
			for i := 0; i < 70000; i++ {
				x.wd.Srv.ClientMgr.Add(cc)
				got := uint16(cc.ID[0])<<8 | uint16(cc.ID[1])
				x.wd.Srv.ClientMgr.Delete(cc.ID)
				if got == want {
					break
				}
			}
		})
		x.wrapped[k] = true
		expectKnown = false
		if os.Getenv("C12DEBUG") != "" {
			fmt.Fprintf(os.Stderr, "wrap: slot %d old id %d\n", k, x.ids[k])
		}
	case "deaf":
		if !x.on[k] || x.deaf[k] {
			return false
		}
		x.cl[k].Conn.Stalled = true
		x.deaf[k] = true
		expectKnown = false
	case "off":
		if !x.on[k] {
			return false
		}
		x.cl[k].Conn.Stalled = false
		x.deaf[k] = false
		x.cl[k].Hangup()
		settle()
		x.on[k] = false
		// a disconnected user is no longer a (connected) member of anything
		for _, c := range x.chats {
			delete(c.members, k)
		}
		expectKnown = false
	case "pub":
		if !x.on[k] {
			return false
		}
		msg, emote, zero := c12Text(p[2])
		fs := []ref.Fld{ref.FS(ref.FData, msg)}
		if emote && p[2] == "emote4" {
			fs = append(fs, ref.F32(ref.FChatOptions, 1))
		} else if emote {
			fs = append(fs, ref.F16(ref.FChatOptions, 1))
		}
		if zero {
			fs = append(fs, ref.F32(ref.FChatID, 0))
		}
		if len(msg) > 4000 { // long lines are sent with the short fields first (both orders are legal)
			fs = append(fs[1:], fs[0])
		}
		req(k, ref.TChatSend, fs...)
		settle()
		if c12CanSend[k] {
			line := c12Format(c12Names[k], msg, emote)
			for i := range x.cl {
				if x.on[i] && x.canRead[i] {
					expect = append(expect, c12Delivery{i, "106 pub " + line})
				}
			}
		}
	case "new", "newz", "newdup":
		// newz / newdup: the server's random draw for the chat id is 0 (which chat requests read as "the public chat") /
		// the id of the first private chat - environment answers the harness decides
		if p[0] == "newz" {
			vrt.ForceRand(0)
		}
		if p[0] == "newdup" {
			if len(x.chats) != 1 || len(x.chats[0].id) != 4 {
				return false
			}
			vrt.ForceRand(binary.BigEndian.Uint32(x.chats[0].id))
		}
		t, _ := strconv.Atoi(p[2])
		if !x.on[k] || !x.on[t] || len(x.chats) >= 2 {
			return false
		}
		id := x.cl[k].Req(ref.TInviteNewChat, ref.F16(ref.FUserID, x.ids[t]))
		settle()
		r := x.cl[k].Reply(id)
		if r == nil || r.Err != 0 {
			x.fail("invite-new-chat-failed", fmt.Sprint(r))
			return true
		}
		cid, _ := r.Get(ref.FChatID)
		x.chats = append(x.chats, &c12Chat{id: cid, members: map[int]bool{k: true}})
		expect = append(expect, c12Delivery{t, fmt.Sprintf("113 chat%d", len(x.chats)-1)})
	case "inv":
		c := chatArg(2)
		t, _ := strconv.Atoi(p[3])
		if c == nil || !x.on[k] || !x.on[t] || !c.members[k] {
			return false
		}
		req(k, ref.TInviteToChat, ref.F16(ref.FUserID, x.ids[t]), ref.F(ref.FChatID, c.id))
		settle()
		expect = append(expect, c12Delivery{t, fmt.Sprintf("113 chat%s", p[2])})
	case "join":
		c := chatArg(2)
		if c == nil || !x.on[k] || c.members[k] {
			return false
		}
		for m := range c.members {
			if x.on[m] {
				expect = append(expect, c12Delivery{m, fmt.Sprintf("117 chat%s user%d", p[2], k)})
			}
		}
		req(k, ref.TJoinChat, ref.F(ref.FChatID, c.id))
		settle()
		c.members[k] = true
		delete(x.banned, p[1]+"/"+p[2])
	case "leave":
		c := chatArg(2)
		if c == nil || !x.on[k] || !c.members[k] {
			return false
		}
		req(k, ref.TLeaveChat, ref.F(ref.FChatID, c.id))
		settle()
		delete(c.members, k)
		x.banned[p[1]+"/"+p[2]] = true
		for m := range c.members {
			if x.on[m] {
				expect = append(expect, c12Delivery{m, fmt.Sprintf("118 chat%s user%d", p[2], k)})
			}
		}
	case "decl":
		c := chatArg(2)
		if c == nil || !x.on[k] || c.members[k] {
			return false
		}
		req(k, ref.TRejectChatInvite, ref.F(ref.FChatID, c.id))
		settle()
		x.banned[p[1]+"/"+p[2]] = true
		for m := range c.members {
			if x.on[m] {
				expect = append(expect, c12Delivery{m, fmt.Sprintf("106 chat%s %s declined invitation to chat", p[2], c12Names[k])})
			}
		}
	case "subj":
		c := chatArg(2)
		if c == nil || !x.on[k] || !c.members[k] {
			return false
		}
		subj := "topic" + p[1]
		req(k, ref.TSetChatSubject, ref.F(ref.FChatID, c.id), ref.FS(ref.FChatSubject, subj))
		settle()
		c.subject = subj
		for m := range c.members {
			if x.on[m] {
				expect = append(expect, c12Delivery{m, fmt.Sprintf("119 chat%s %s", p[2], subj)})
			}
		}
	case "priv":
		c := chatArg(2)
		if c == nil || !x.on[k] || !c.members[k] {
			return false
		}
		msg, emote, _ := c12Text(p[3])
		fs := []ref.Fld{ref.FS(ref.FData, msg), ref.F(ref.FChatID, c.id)}
		if emote {
			fs = append(fs, ref.F16(ref.FChatOptions, 1))
		}
		if len(msg) > 4000 {
			fs = append(fs[1:], fs[0])
		}
		req(k, ref.TChatSend, fs...)
		settle()
		if c12CanSend[k] {
			line := c12Format(c12Names[k], msg, emote)
			for m := range c.members {
				if x.on[m] {
					expect = append(expect, c12Delivery{m, fmt.Sprintf("106 chat%s %s", p[2], line)})
				}
			}
		}
	default:
		panic(op)
	}
	x.lastExpect, x.lastKnown = expect, expectKnown
	if !check {
		return true
	}
	got := x.collect(mark, p[0] == "on", p[0] == "off", k)
	canon := func(ds []c12Delivery) []string {
		var s []string
		for _, d := range ds {
			if x.deaf[d.to] {
				continue // what a client that does not read would have received stays in flight
			}
			s = append(s, fmt.Sprintf("to%d: %s", d.to, clipMid(d.what)))
		}
		sort.Strings(s)
		return s
	}
	g := canon(got)
	// nothing from a chat to a user who left it or declined
	for _, d := range got {
		for key := range x.banned {
			kc := strings.Split(key, "/")
			if fmt.Sprint(d.to) == kc[0] && strings.Contains(d.what, " chat"+kc[1]+" ") && !strings.HasPrefix(d.what, "113") {
				x.fail("delivery-after-leave-or-decline", fmt.Sprintf("op %s: user %s left/declined chat %s but received %s", op, kc[0], kc[1], clipMid(d.what)))
			}
		}
	}
	if expectKnown {
		e := canon(expect)
		if strings.Join(g, "\n") != strings.Join(e, "\n") {
			clause := "audience/" + p[0]
			if len(g) == len(e) {
				clause = "content/" + p[0]
			}
			x.fail(clause, fmt.Sprintf("op %s: delivered\n%s\nreference model\n%s", op, strings.Join(g, "\n"), strings.Join(e, "\n")))
		}
	} else {
		for _, d := range got {
			x.fail("audience/"+p[0], fmt.Sprintf("op %s caused chat traffic: to%d %s", op, d.to, clipMid(d.what)))
		}
	}
	return true
}

// collect: the chat-related, server-initiated transactions every client received since mark.
func (x *c12World) collect(mark [3]int, isOn, isOff bool, k int) []c12Delivery {
	var got []c12Delivery
	for i := range x.cl {
		if x.cl[i] == nil || (!x.on[i] && !(isOff && i == k)) {
			continue
		}
		x.cl[i].Poll()
		if x.cl[i].ParseErr != nil {
			x.fail("stream-unparseable", fmt.Sprint(x.cl[i].ParseErr))
		}
		start := mark[i]
		if isOn && i == k {
			start = 0
		}
		if start > len(x.cl[i].Inbox) {
			start = len(x.cl[i].Inbox)
		}
		for _, t := range x.cl[i].Inbox[start:] {
			if t.IsReply == 1 {
				continue
			}
			chat := "pub"
			if cid, ok := t.Get(ref.FChatID); ok {
				chat = "chat?"
				for ci, c := range x.chats {
					if string(c.id) == string(cid) {
						chat = fmt.Sprintf("chat%d", ci)
					}
				}
			}
			switch t.Type {
			case ref.TChatMsg:
				got = append(got, c12Delivery{i, fmt.Sprintf("106 %s %s", chat, fieldStr(&t, ref.FData))})
			case ref.TInviteToChat:
				got = append(got, c12Delivery{i, fmt.Sprintf("113 %s", chat)})
			case ref.TNotifyChatChange, ref.TNotifyChatDelete:
				uid, _ := t.Get(ref.FUserID)
				who := -1
				for s := range x.ids {
					if len(uid) == 2 && x.ids[s] == uint16(uid[0])<<8|uint16(uid[1]) {
						who = s
					}
				}
				got = append(got, c12Delivery{i, fmt.Sprintf("%d %s user%d", t.Type, chat, who)})
			case ref.TNotifyChatSubject:
				got = append(got, c12Delivery{i, fmt.Sprintf("119 %s %s", chat, fieldStr(&t, ref.FChatSubject))})
			}
		}
	}
	return got
}

func clipMid(s string) string {
	if len(s) <= 80 {
		return fmt.Sprintf("%q", s)
	}
	return fmt.Sprintf("%q…%q (%d bytes, h=%x)", s[:40], s[len(s)-12:], len(s), explore.Hash(s))
}

var c12Probe *world.Client

func (x *c12World) probe() *world.Client { return c12Probe }

func (x *c12World) canon() string {
	var sb strings.Builder
	for i := range x.on {
		fmt.Fprintf(&sb, "%v,", x.on[i])
	}
	for ci, c := range x.chats {
		var ms []int
		for m := range c.members {
			ms = append(ms, m)
		}
		sort.Ints(ms)
		fmt.Fprintf(&sb, " chat%d%v/%s", ci, ms, c.subject)
	}
	var b []string
	for k := range x.banned {
		b = append(b, k)
	}
	sort.Strings(b)
	fmt.Fprintf(&sb, " left%v deaf%v read%v login%v wrapped%v", b, x.deaf, x.canRead, x.login, x.wrapped)
	// the implementation's own chat table (for deduplication only): diverging states are expanded, not merged
	for ci, c := range x.chats {
		if len(c.id) == 4 {
			var ms []string
			for _, m := range x.wd.Srv.ChatMgr.Members([4]byte(c.id)) {
				ms = append(ms, fmt.Sprintf("%x", m.ID[:]))
			}
			fmt.Fprintf(&sb, " impl-chat%d%v/%s", ci, ms, x.wd.Srv.ChatMgr.GetSubject([4]byte(c.id)))
		}
	}
	return sb.String()
}

func c12Exec(hist []string) (res explore.SeqResult) {
	s := seq(func() {
		accts := append([]world.Acct{{Login: "probe", Name: "probe", Password: "pp", Access: world.Bits(ref.PAnyName, ref.PModifyUser)}}, c12Accounts...)
		wd := world.New(world.Cfg{Accounts: accts})
		defer wd.Close()
		x := &c12World{wd: wd, banned: map[string]bool{}, canRead: [3]bool{c12CanRead[0], c12CanRead[1], c12CanRead[2]}}
		var r *ref.Tx
		c12Probe, r = wd.Connect("10.9.9.9:999", "probe", "pp", "probe") // no chat privileges: never part of any audience
		if r == nil || r.Err != 0 {
			res.Violations = append(res.Violations, explore.SchedV{Signature: "C12/setup", Detail: "probe login failed"})
			return
		}
		// the search starts with all three clients connected (operations "off"/"on" are still in the alphabet)
		for _, op := range []string{"on:0", "on:1", "on:2"} {
			x.apply(op, false)
		}
		for i, op := range hist {
			if !x.apply(op, i == len(hist)-1) {
				res.Skip = true
				return
			}
		}
		// the probe has no chat privilege and is in no chat: it must never see chat traffic
		for _, t := range c12Probe.New() {
			switch t.Type {
			case ref.TChatMsg, ref.TInviteToChat, ref.TNotifyChatChange, ref.TNotifyChatDelete, ref.TNotifyChatSubject:
				x.fail("audience/outsider-received-chat-traffic", t.String())
			}
		}
		res.Canon = x.canon()
		res.Violations = x.viol
	})
	for _, p := range s.Panics() {
		res.Violations = append(res.Violations, explore.SchedV{Signature: "C12/panic/" + vrt.PanicSite(p), Detail: p})
	}
	return res
}

// ---- pairs of concurrent operations (E-SCHED) ----

// c12Bases are the histories the pairs start from: one private chat with two members and a third user
// invited; the same with all three joined; two private chats.
var c12Bases = [][]string{
	{"new:0:1", "join:1:0", "inv:0:0:2"},
	{"new:0:1", "join:1:0", "inv:0:0:2", "join:2:0"},
	{"new:0:1", "join:1:0", "inv:0:0:2", "join:2:0", "new:1:0", "join:0:1"},
}

func c12PairOps() []string {
	var ops []string
	for _, op := range c12Alphabet() {
		switch strings.Split(op, ":")[0] {
		case "pub", "inv", "join", "leave", "decl", "subj", "priv":
			if !strings.Contains(op, "long") && !strings.Contains(op, "edge") {
				ops = append(ops, op)
			}
		}
	}
	return ops
}

type c12PairParams struct {
	Base int    `json:"base"`
	A    string `json:"a"`
	B    string `json:"b"`
}

func c12Setup(base []string) (*c12World, bool) {
	accts := append([]world.Acct{{Login: "probe", Name: "probe", Password: "pp", Access: world.Bits(ref.PAnyName, ref.PModifyUser)}}, c12Accounts...)
	wd := world.New(world.Cfg{Accounts: accts})
	x := &c12World{wd: wd, banned: map[string]bool{}, canRead: [3]bool{c12CanRead[0], c12CanRead[1], c12CanRead[2]}}
	var r *ref.Tx
	c12Probe, r = wd.Connect("10.9.9.9:999", "probe", "pp", "probe")
	if r == nil || r.Err != 0 {
		return x, false
	}
	for _, op := range append([]string{"on:0", "on:1", "on:2"}, base...) {
		if !x.apply(op, false) {
			return x, false
		}
	}
	return x, true
}

// c12Order: the reference outcome of a then b from the model state of x: the deliveries and the chat
// memberships/subjects afterwards; ok=false if b is not meaningful after a.
func (x *c12World) c12Order(a, b string) (deliveries []string, members string, ok bool) {
	y := x.cloneModel(2)
	if !y.apply(a, false) || !y.lastKnown {
		return nil, "", false
	}
	e := append([]c12Delivery(nil), y.lastExpect...)
	if !y.apply(b, false) || !y.lastKnown {
		return nil, "", false
	}
	e = append(e, y.lastExpect...)
	for _, d := range e {
		deliveries = append(deliveries, fmt.Sprintf("to%d: %s", d.to, clipMid(d.what)))
	}
	sort.Strings(deliveries)
	return deliveries, y.members(false), true
}

func maxInt(a, b int) int {
	if a > b {
		return a
	}
	return b
}

func minInt(a, b int) int {
	if a < b {
		return a
	}
	return b
}

func multiset(l []string) map[string]int {
	m := map[string]int{}
	for _, s := range l {
		m[s]++
	}
	return m
}

// members: chat memberships and subjects, from the model or from the implementation's chat table
func (x *c12World) members(impl bool) string {
	var sb strings.Builder
	for ci, c := range x.chats {
		var ms []int
		if impl {
			for _, m := range x.wd.Srv.ChatMgr.Members([4]byte(c.id)) {
				for s := range x.ids {
					if x.ids[s] == uint16(m.ID[0])<<8|uint16(m.ID[1]) {
						ms = append(ms, s)
					}
				}
			}
			sort.Ints(ms)
			fmt.Fprintf(&sb, "chat%d%v/%s ", ci, ms, x.wd.Srv.ChatMgr.GetSubject([4]byte(c.id)))
			continue
		}
		for m := range c.members {
			ms = append(ms, m)
		}
		sort.Ints(ms)
		fmt.Fprintf(&sb, "chat%d%v/%s ", ci, ms, c.subject)
	}
	return sb.String()
}

// c12PairUsable: both operations are by different clients and meaningful in either order.
func c12PairUsable(p c12PairParams) (ok bool) {
	if strings.Split(p.A, ":")[1] == strings.Split(p.B, ":")[1] {
		return false
	}
	seq(func() {
		x, up := c12Setup(c12Bases[p.Base])
		defer x.wd.Close()
		if !up {
			return
		}
		_, _, ok1 := x.c12Order(p.A, p.B)
		_, _, ok2 := x.c12Order(p.B, p.A)
		ok = ok1 && ok2
	})
	return ok
}

// c12Pair: two clients issue one chat operation each at the same moment; whatever the schedule, what
// everybody receives and the memberships afterwards are those of one of the two sequential orders.
func c12Pair(p c12PairParams) func() explore.SchedOutcome {
	return func() (out explore.SchedOutcome) {
		vrt.BeginSetup()
		x, up := c12Setup(c12Bases[p.Base])
		defer x.wd.Close()
		if !up {
			out.Violations = append(out.Violations, explore.SchedV{Signature: "C12/pair/setup", Detail: fmt.Sprintf("%+v", p)})
			return out
		}
		ab, mab, _ := x.c12Order(p.A, p.B)
		ba, mba, _ := x.c12Order(p.B, p.A)
		var mark [3]int
		for i := range x.cl {
			x.cl[i].Poll()
			mark[i] = len(x.cl[i].Inbox)
		}
		c12Probe.New()
		vrt.EndSetup()
		for _, op := range []string{p.A, p.B} {
			op := op
			vrt.GoNamed("client-"+strings.Split(op, ":")[1], func() { x.cloneModel(1).apply(op, false) })
		}
		vrt.WaitQuiet()
		var got []string
		for _, d := range x.collect(mark, false, false, -1) {
			got = append(got, fmt.Sprintf("to%d: %s", d.to, clipMid(d.what)))
		}
		sort.Strings(got)
		// The property fixes the audience of each notice as "the members of the chat" and adds that a user who
		// left receives nothing further. While two operations overlap, a user who is joining or leaving is a
		// member for one of them and not for the other, so the outcome need not be that of a sequential order —
		// but what both orders deliver must be delivered (exactly as often), and everything that is delivered
		// must be delivered by one and the same order (otherwise somebody was served as a member after leaving
		// or before joining in every possible reading).
		g, a, b := multiset(got), multiset(ab), multiset(ba)
		var wrong []string
		for k := range a {
			if min := minInt(a[k], b[k]); g[k] < min {
				wrong = append(wrong, fmt.Sprintf("%s delivered %d times, %d in both orders", k, g[k], min))
			}
		}
		within := func(o map[string]int) bool {
			for k, n := range g {
				if n > o[k] {
					return false
				}
			}
			return true
		}
		if !within(a) && !within(b) {
			wrong = append(wrong, "the deliveries are not a subset of what either order delivers")
		}
		mem := x.members(true)
		if mem != mab && mem != mba {
			wrong = append(wrong, fmt.Sprintf("memberships afterwards %q, expected %q or %q", mem, mab, mba))
		}
		if len(wrong) > 0 {
			sort.Strings(wrong)
			out.Violations = append(out.Violations, explore.SchedV{Signature: "C12/pair/outcome-of-two-concurrent-operations-is-outside-both-orders/" + strings.Split(p.A, ":")[0] + "+" + strings.Split(p.B, ":")[0],
				Detail: fmt.Sprintf("base %v, %s || %s: %s\ndelivered:\n%s\n%s first:\n%s\n%s first:\n%s", c12Bases[p.Base], p.A, p.B, strings.Join(wrong, "; "), strings.Join(got, "\n"), p.A, strings.Join(ab, "\n"), p.B, strings.Join(ba, "\n"))})
		}
		for _, t := range c12Probe.New() {
			switch t.Type {
			case ref.TChatMsg, ref.TInviteToChat, ref.TNotifyChatChange, ref.TNotifyChatDelete, ref.TNotifyChatSubject:
				out.Violations = append(out.Violations, explore.SchedV{Signature: "C12/pair/outsider-received-chat-traffic", Detail: t.String()})
			}
		}
		for _, cl := range x.cl {
			if cl.ParseErr != nil {
				out.Violations = append(out.Violations, explore.SchedV{Signature: "C12/pair/stream-unparseable", Detail: fmt.Sprint(cl.ParseErr)})
			}
		}
		for _, pn := range vrt.S.Panics() {
			out.Violations = append(out.Violations, explore.SchedV{Signature: "C12/pair/panic/" + vrt.PanicSite(pn), Detail: pn})
		}
		out.Canon = strings.Join(got, "\n") + mem
		return out
	}
}

func c12Alphabet() []string {
	return []string{
		"on:0", "on:1", "on:2", "off:0", "off:1", "off:2", "deaf:0", "deaf:2", "edit:0", "edit:1", "editb:0", "editr:0", "editr:2", "wrap:1", "wrap:2",
		"pub:0:plain", "pub:0:emote", "pub:0:emote4", "pub:0:zero", "pub:0:long", "pub:0:edge", "pub:0:longemote", "pub:1:plain", "pub:1:long", "pub:2:plain",
		"new:0:1", "new:0:2", "new:1:0", "new:1:2",
		"inv:0:0:2", "inv:1:0:2", "inv:1:1:0",
		"join:1:0", "join:2:0", "join:0:0", "join:0:1", "join:2:1",
		"leave:0:0", "leave:1:0", "leave:2:0", "leave:1:1",
		"decl:1:0", "decl:2:0", "decl:0:1",
		"subj:0:0", "subj:1:0", "subj:1:1",
		"priv:0:0:plain", "priv:1:0:plain", "priv:2:0:plain", "priv:0:0:longemote", "priv:1:0:long", "priv:1:1:plain", "priv:0:1:emote",
	}
}

func runC12(w *explore.Worker) {
	depth := 4
	if w.Thorough {
		depth = 5
	}
	explore.ExploreHistories(w, explore.SeqConfig{Name: "C12chat", Alphabet: c12Alphabet(), Depth: depth, Exec: c12Exec})
	// deeper than the search: a member disconnects, the id counter wraps, a new connection gets its id - and is not
	// a member of anything
	if w.Mine(4) {
		for _, last := range []string{"priv:0:0:plain", "subj:0:0", "leave:0:0", "inv:0:0:2"} {
			h := []string{"new:0:1", "join:1:0", "off:1", "wrap:1", "on:1", last}
			w.Eval()
			res := c12Exec(h)
			for _, v := range res.Violations {
				w.Violation(v.Signature, v.Detail+"\nhistory: "+strings.Join(h, " ; "), len(h), explore.SeqReplay{Kind: "history", Harness: "C12chat", History: h})
			}
			w.Outcome("ghost " + last + " " + fmt.Sprint(len(res.Violations)))
		}
	}
	// unlucky draws of the chat id
	if w.Mine(5) {
		for _, h := range [][]string{
			{"newz:0:1", "join:1:0", "priv:0:0:plain"},
			{"newz:0:1", "join:1:0", "subj:0:0"},
			{"new:0:1", "join:1:0", "newdup:2:0", "priv:0:0:plain"},
			{"new:0:1", "join:1:0", "newdup:2:0", "priv:2:1:plain"},
		} {
			w.Eval()
			res := c12Exec(h)
			for _, v := range res.Violations {
				w.Violation(v.Signature, v.Detail+"\nhistory: "+strings.Join(h, " ; "), len(h), explore.SeqReplay{Kind: "history", Harness: "C12chat", History: h})
			}
			w.Outcome("draw " + h[len(h)-1] + " " + fmt.Sprint(len(res.Violations)))
		}
	}
	// pairs of concurrent operations from three base states
	bound := 1
	if w.Thorough {
		bound = 2
	}
	ops := c12PairOps()
	pairs := 0
	for bi := range c12Bases {
		for i, a := range ops {
			for _, b := range ops[i+1:] {
				p := c12PairParams{Base: bi, A: a, B: b}
				if !c12PairUsable(p) {
					continue
				}
				pairs++
				explore.ExploreSchedules(w, explore.SchedConfig{Harness: "C12pair", Params: js(p), Bound: bound, FreeCost: 1, MaxSteps: 20000, Suspend: true}, c12Pair(p))
			}
		}
	}
	if w.Index == 0 {
		w.Count("concurrent_pairs", pairs)
	}
	w.Max("pair_deviation_bound_completed", bound)
}

func replayC12(w *explore.Worker, raw json.RawMessage) {
	var sr explore.SchedReplay
	if json.Unmarshal(raw, &sr) == nil && sr.Kind == "schedule" {
		var p c12PairParams
		if err := json.Unmarshal([]byte(sr.Params), &p); err != nil {
			w.Broken("bad replay params: %v", err)
			return
		}
		_, out, err := explore.RunSchedule(sr.Choices, 20000, c12Pair(p))
		if err != nil {
			w.Broken("replay: %v", err)
		}
		for _, v := range out.Violations {
			w.Violation(v.Signature, v.Detail, 0, sr)
		}
		return
	}
	var r explore.SeqReplay
	if err := json.Unmarshal(raw, &r); err != nil {
		w.Broken("bad replay: %v", err)
		return
	}
	res := c12Exec(r.History)
	for _, v := range res.Violations {
		w.Violation(v.Signature, v.Detail, 0, r)
	}
}
