package props

import (
	"bytes"
	"encoding/binary"
	"encoding/json"
	"fmt"
	"golang.org/x/text/encoding/charmap"
	"os"
	"path/filepath"
	"sort"
	"strings"
	"time"

	"github.com/jhalter/mobius/verifh/explore"
	"github.com/jhalter/mobius/verifh/ref"
	"github.com/jhalter/mobius/verifh/vrt/vnet"
	"github.com/jhalter/mobius/verifh/world"
)

// C10: folder transfers reproduce the tree, item by item.

func init() {
	register(&Prop{
		ID:    "C10",
		Level: "exploration",
		Rule: "bounded-exhaustive enumeration with a reference folder-transfer client on the real transfer path: all directory trees with up to 4 (thorough 5) entries, depth <= 2, names {a, 'b c', .dot, sub, .hid} / {x, .y, in}, file sizes {0,1,5}; " +
			"download: every per-file action vector over {send, resume@0, resume@1, resume@size, skip}; upload into an empty target, a target holding a complete copy of one file, a target holding a partial copy; upload then download; " +
			"folder upload cut at every byte of the client's stream (also inside a resumed item) and retried; folders holding files with stored information / resource forks; distinct = distinct (tree shape, action vector class, observation)",
		Assumptions:    []string{"which entries below a hidden folder count as items is not settled by the property: for such trees only 'announced count = headers sent' is checked", "roots have visible names; no symlinks"},
		Run:            runC10,
		Replay:         replayC10,
		MinOutcomes:    10,
		QuickBudget:    180 * time.Second,
		ThoroughBudget: 25 * time.Minute,
	})
}

type c10Entry struct {
	Path string `json:"p"` // relative, slash separated
	Dir  bool   `json:"d"`
	Size int    `json:"s"`
	Info bool   `json:"i,omitempty"` // a stored information fork (with a comment) next to the file
	Rsrc bool   `json:"r,omitempty"` // a stored resource fork next to the file
}

type c10Case struct {
	Mode    string     `json:"mode"` // download | upload | roundtrip | uploadcut
	Tree    []c10Entry `json:"tree"`
	Actions []int      `json:"actions"` // download: per visible file (walk order): 0 send, 1 resume@0, 2 resume@1, 3 resume@size, 4 skip
	Target  int        `json:"target"`  // upload: 0 empty, 1 complete copy of first file present, 2 partial copy of first file present
	Cut     int        `json:"cut"`     // uploadcut: number of client bytes delivered before the reset
}

func c10Data(path string, n int) []byte {
	b := make([]byte, n)
	for i := range b {
		b[i] = byte(len(path)*17 + i*29 + 1)
	}
	return b
}

func hiddenName(p string) bool { return strings.HasPrefix(filepath.Base(p), ".") }

// c10Visible: entries a folder download must send: names not starting with a dot, in depth-first
// (lexical) order. ok=false if the tree has visible entries below a hidden folder (unsettled).
func c10Visible(tree []c10Entry) (vis []c10Entry, settled bool) {
	settled = true
	sorted := append([]c10Entry(nil), tree...)
	sort.Slice(sorted, func(i, j int) bool { return walkLess(sorted[i].Path, sorted[j].Path) })
	for _, e := range sorted {
		parts := strings.Split(e.Path, "/")
		hiddenAncestor := false
		for _, p := range parts[:len(parts)-1] {
			if strings.HasPrefix(p, ".") {
				hiddenAncestor = true
			}
		}
		if hiddenAncestor {
			if !hiddenName(e.Path) {
				settled = false
			}
			continue
		}
		if !hiddenName(e.Path) {
			vis = append(vis, e)
		}
	}
	return vis, settled
}

// walkLess orders paths as a depth-first walk with lexically sorted directory entries does.
func walkLess(a, b string) bool {
	as, bs := strings.Split(a, "/"), strings.Split(b, "/")
	for i := 0; i < len(as) && i < len(bs); i++ {
		if as[i] != bs[i] {
			return as[i] < bs[i]
		}
	}
	return len(as) < len(bs)
}

func c10Populate(root string, tree []c10Entry) {
	for _, e := range tree {
		p := filepath.Join(root, filepath.FromSlash(e.Path))
		if e.Dir {
			_ = os.MkdirAll(p, 0755)
		} else {
			_ = os.MkdirAll(filepath.Dir(p), 0755)
			_ = os.WriteFile(p, c10Data(e.Path, e.Size), 0644)
			if e.Info {
				_ = os.WriteFile(filepath.Join(filepath.Dir(p), ".info_"+filepath.Base(p)), ref.NewInfoFork(filepath.Base(p), "TEXT", "ttxt", "a comment").Encode(), 0644)
			}
			if e.Rsrc {
				_ = os.WriteFile(filepath.Join(filepath.Dir(p), ".rsrc_"+filepath.Base(p)), c08Rsrc(), 0644)
			}
		}
	}
}

// xferIO drives an interactive transfer connection from the main thread.
type xferIO struct {
	conn *vnet.Conn
	buf  []byte
	sent int
	cut  int // -1: none; otherwise reset after this many client bytes
	dead bool
}

func (x *xferIO) send(b []byte) {
	if x.dead {
		return
	}
	if x.cut >= 0 && x.sent+len(b) >= x.cut {
		n := x.cut - x.sent
		x.conn.Feed(b[:n])
		x.conn.Reset()
		x.sent += n
		x.dead = true
		world.Settle(10 * time.Second)
		return
	}
	x.conn.Feed(b)
	x.sent += len(b)
}

// need waits (runs the server to quiescence) until n bytes are buffered; false if they never come.
func (x *xferIO) need(n int) bool {
	if len(x.buf) >= n {
		return true
	}
	world.Settle(10 * time.Second)
	x.buf = append(x.buf, x.conn.Take()...)
	return len(x.buf) >= n
}

func (x *xferIO) take(n int) []byte {
	b := x.buf[:n]
	x.buf = x.buf[n:]
	return b
}

type c10Got struct {
	Item    ref.FolderItem
	Prefix  int
	Payload []byte
}

func c10Download(w *explore.Worker, c c10Case, wd *world.World, u *world.Client, fail func(string, string)) (items []c10Got, announced int, ok bool) {
	id := u.Req(ref.TDownloadFldr, ref.FS(ref.FFileName, "root"))
	world.Quiet()
	rep := u.Reply(id)
	if rep == nil || rep.Err != 0 {
		fail("download/request-refused", fmt.Sprint(rep))
		return nil, 0, false
	}
	refnum, _ := rep.Get(ref.FRefNum)
	cnt, _ := rep.Get(ref.FFolderItemCount)
	if len(cnt) != 2 || len(refnum) != 4 {
		fail("download/reply-malformed", fmt.Sprint(rep))
		return nil, 0, false
	}
	announced = int(binary.BigEndian.Uint16(cnt))
	x := &xferIO{conn: wd.DialTransfer("10.0.0.1:2001"), cut: -1}
	x.send(append(ref.Preamble(refnum, 0), 0, 3))
	fileIdx := 0
	for guard := 0; guard < 200; guard++ {
		if !x.need(2) {
			break
		}
		size := int(binary.BigEndian.Uint16(x.buf[:2]))
		if !x.need(2 + size) {
			fail("download/truncated-item-header", fmt.Sprintf("%d bytes buffered, header announces %d", len(x.buf), size))
			return items, announced, false
		}
		it, err := ref.DecodeFolderItem(x.buf)
		if err != nil {
			fail("download/item-header-undecodable", fmt.Sprintf("%v: %x", err, x.buf[:min(len(x.buf), 40)]))
			return items, announced, false
		}
		x.take(it.Len)
		for i := range it.Path { // names travel in Mac Roman; the tree model holds them as they are on disk
			if d, err := charmap.Macintosh.NewDecoder().String(it.Path[i]); err == nil {
				it.Path[i] = d
			}
		}
		g := c10Got{Item: it, Prefix: -1}
		if it.IsFolder {
			x.send([]byte{0, 3})
			items = append(items, g)
			continue
		}
		act := 0
		if fileIdx < len(c.Actions) {
			act = c.Actions[fileIdx]
		}
		fileIdx++
		var fsize int
		for _, e := range c.Tree {
			if e.Path == strings.Join(it.Path, "/") {
				fsize = e.Size
			}
		}
		switch act {
		case 4:
			x.send([]byte{0, 3})
			items = append(items, g)
			continue
		case 0:
			x.send([]byte{0, 1})
		default:
			off := map[int]int{1: 0, 2: 1, 3: fsize}[act]
			if off > fsize {
				off = fsize
			}
			rd := ref.ResumeData(uint32(off), nil)
			x.send(append(append([]byte{0, 2}, byte(len(rd)>>8), byte(len(rd))), rd...))
		}
		if !x.need(4) {
			fail("download/no-size-prefix-after-send-action", fmt.Sprintf("item %v", it.Path))
			return items, announced, false
		}
		g.Prefix = int(binary.BigEndian.Uint32(x.take(4)))
		// the client reads exactly the announced number of bytes
		if g.Prefix > 1<<20 || !x.need(g.Prefix) {
			world.Settle(10 * time.Second)
			x.buf = append(x.buf, x.conn.Take()...)
			g.Payload = append([]byte(nil), x.buf...)
			items = append(items, g)
			fail("download/fewer-bytes-than-the-size-prefix-announces", fmt.Sprintf("item %v: prefix %d, only %d bytes arrived", it.Path, g.Prefix, len(x.buf)))
			return items, announced, false
		}
		g.Payload = append([]byte(nil), x.take(g.Prefix)...)
		items = append(items, g)
		x.send([]byte{0, 3})
	}
	world.Settle(10 * time.Second)
	x.buf = append(x.buf, x.conn.Take()...)
	if len(x.buf) != 0 {
		fail("download/stray-bytes-after-the-last-item", fmt.Sprintf("%d bytes: %x", len(x.buf), x.buf[:min(len(x.buf), 32)]))
	}
	return items, announced, true
}

func c10CheckDownload(c c10Case, items []c10Got, announced int, fail func(string, string)) string {
	if announced != len(items) {
		fail("download/announced-item-count-differs-from-headers-sent", fmt.Sprintf("reply announces %d items, %d item headers were sent", announced, len(items)))
	}
	vis, settled := c10Visible(c.Tree)
	var gotPaths, wantPaths []string
	for _, g := range items {
		k := "F:"
		if g.Item.IsFolder {
			k = "D:"
		}
		gotPaths = append(gotPaths, k+strings.Join(g.Item.Path, "/"))
	}
	for _, e := range vis {
		k := "F:"
		if e.Dir {
			k = "D:"
		}
		wantPaths = append(wantPaths, k+e.Path)
	}
	if settled && strings.Join(gotPaths, ",") != strings.Join(wantPaths, ",") {
		fail("download/items-differ-from-visible-entries-in-depth-first-order", fmt.Sprintf("headers %v, visible entries %v", gotPaths, wantPaths))
	}
	fileIdx := 0
	for _, g := range items {
		if g.Item.IsFolder {
			continue
		}
		act := 0
		if fileIdx < len(c.Actions) {
			act = c.Actions[fileIdx]
		}
		fileIdx++
		path := strings.Join(g.Item.Path, "/")
		var e *c10Entry
		for i := range c.Tree {
			if c.Tree[i].Path == path && !c.Tree[i].Dir {
				e = &c.Tree[i]
			}
		}
		if e == nil {
			continue
		}
		if act == 4 {
			if g.Prefix != -1 {
				fail("download/skipped-file-sent", path)
			}
			continue
		}
		off := map[int]int{0: 0, 1: 0, 2: 1, 3: e.Size}[act]
		if off > e.Size {
			off = e.Size
		}
		data := c10Data(e.Path, e.Size)
		p, err := ref.ParseFlat(g.Payload)
		if err != nil {
			fail("download/file-object-unparseable", fmt.Sprintf("%s: %v", path, err))
			continue
		}
		if p.InfoProblem != "" {
			fail("download/file-object-info-fork-inconsistent", p.InfoProblem)
		}
		want := data[off:]
		clause := "send"
		if act != 0 {
			clause = "resume"
		}
		if int(p.DataDecl) != len(want) {
			fail("download/data-fork-header-size-wrong-on-"+clause, fmt.Sprintf("%s (size %d, from offset %d): the DATA fork header announces %d bytes, %d follow", path, e.Size, off, p.DataDecl, len(want)))
		}
		if e.Info || e.Rsrc {
			// files with stored forks: header, the data from the offset, then nothing / an empty resource fork
			// header (no stored resource fork) or the resource fork header and bytes
			tail := p.Rest
			if len(tail) < len(want) || !bytes.Equal(tail[:len(want)], want) {
				fail("download/file-bytes-wrong-on-"+clause, fmt.Sprintf("%s (stored forks info=%v rsrc=%v, size %d, from offset %d): %d bytes follow the header, they do not start with data[%d:]", path, e.Info, e.Rsrc, e.Size, off, len(tail), off))
				continue
			}
			tail = tail[len(want):]
			okTail := len(tail) == 0 && !e.Rsrc
			if len(tail) >= 16 && string(tail[:4]) == "MACR" {
				n := int(binary.BigEndian.Uint32(tail[12:16]))
				if e.Rsrc {
					okTail = n == len(c08Rsrc()) && bytes.Equal(tail[16:], c08Rsrc())
				} else {
					okTail = n == 0 && len(tail) == 16
				}
			}
			if !okTail && !(e.Rsrc && act != 0) { // what follows the data of a resumed item that has a resource fork is not specified here
				fail("download/bytes-after-the-data-fork", fmt.Sprintf("%s (stored forks info=%v rsrc=%v): %d bytes after the data: %x", path, e.Info, e.Rsrc, len(tail), tail[:min(len(tail), 24)]))
			}
			continue
		}
		if g.Prefix != p.HeaderLen+len(want) {
			fail("download/size-prefix-wrong-on-"+clause, fmt.Sprintf("%s (size %d, action %s from offset %d): prefix %d, header %d + remaining data %d = %d", path, e.Size, clause, off, g.Prefix, p.HeaderLen, len(want), p.HeaderLen+len(want)))
		}
		if !bytes.Equal(p.Rest, want) {
			fail("download/file-bytes-wrong-on-"+clause, fmt.Sprintf("%s (size %d, action %s from offset %d): %d bytes follow the header, expected data[%d:] = %d bytes", path, e.Size, clause, off, len(p.Rest), off, len(want)))
		}
	}
	return fmt.Sprintf("announced=%d headers=%d", announced, len(items))
}

// c10Upload streams the tree as folder "updir" into Uploads and returns false if the server stopped early.
func c10Upload(c c10Case, wd *world.World, u *world.Client, cut int, fail func(string, string)) bool {
	tree := append([]c10Entry(nil), c.Tree...)
	sort.Slice(tree, func(i, j int) bool { return walkLess(tree[i].Path, tree[j].Path) })
	total := 0
	for _, e := range tree {
		total += e.Size
	}
	id := u.Req(ref.TUploadFldr, ref.FS(ref.FFileName, "updir"), ref.F(ref.FFilePath, ref.PathBytes("Uploads")), ref.F32(ref.FTransferSize, uint32(total)), ref.F16(ref.FFolderItemCount, uint16(len(tree))))
	world.Quiet()
	rep := u.Reply(id)
	if rep == nil || rep.Err != 0 {
		fail("upload/request-refused", fmt.Sprint(rep))
		return false
	}
	refnum, _ := rep.Get(ref.FRefNum)
	x := &xferIO{conn: wd.DialTransfer("10.0.0.1:2002"), cut: cut}
	x.send(ref.Preamble(refnum, 0))
	if !x.need(2) {
		return x.dead
	}
	x.take(2)
	for _, e := range tree {
		if x.dead {
			return true
		}
		var segs []string
		for _, seg := range strings.Split(e.Path, "/") {
			segs = append(segs, string(macRoman(seg)))
		}
		x.send(ref.ItemHeader(e.Dir, segs...))
		if x.dead {
			return true
		}
		if !x.need(2) {
			fail("upload/no-action-after-item-header", e.Path)
			return false
		}
		act := x.take(2)[1]
		if e.Dir {
			if act != 3 {
				fail("upload/unexpected-action-for-folder", fmt.Sprint(act))
			}
			continue
		}
		data := c10Data(e.Path, e.Size)
		info := ref.NewInfoFork(filepath.Base(e.Path), "TEXT", "ttxt", "")
		switch act {
		case 3:
			continue
		case 2:
			if !x.need(2) {
				fail("upload/resume-without-resume-data", e.Path)
				return false
			}
			n := int(binary.BigEndian.Uint16(x.take(2)))
			if !x.need(n) {
				fail("upload/resume-data-truncated", e.Path)
				return false
			}
			off, err := ref.DecodeResumeData(x.take(n))
			if err != nil || int(off) > len(data) {
				fail("upload/resume-data-wrong", fmt.Sprintf("%s: offset %d err %v", e.Path, off, err))
				return false
			}
			data = data[off:]
			fallthrough
		case 1:
			var rsrc []byte
			if e.Rsrc { // a three-fork item: the server stores or discards the resource fork, and stays in step
				rsrc = c08Rsrc()
			}
			ff := ref.FlatFile(info, data, rsrc)
			x.send(append(binary.BigEndian.AppendUint32(nil, uint32(len(ff))), ff...))
			if x.dead {
				return true
			}
			if !x.need(2) {
				fail("upload/no-next-action-after-file", e.Path)
				return false
			}
			x.take(2)
		default:
			fail("upload/unknown-action", fmt.Sprint(act))
			return false
		}
	}
	world.Settle(10 * time.Second)
	return true
}

func c10CheckUploaded(c c10Case, wd *world.World, fail func(string, string)) string {
	got := world.Tree(filepath.Join(wd.FileRoot, "Uploads", "updir"))
	var gl, wl []string
	for p, v := range got {
		if v != "<dir>" {
			v = fmt.Sprintf("%x", v)
		}
		gl = append(gl, p+"="+v)
	}
	for _, e := range c.Tree {
		if e.Dir {
			wl = append(wl, e.Path+"=<dir>")
		} else {
			wl = append(wl, fmt.Sprintf("%s=%x", e.Path, c10Data(e.Path, e.Size)))
		}
	}
	sort.Strings(gl)
	sort.Strings(wl)
	if strings.Join(gl, ";") != strings.Join(wl, ";") {
		fail("upload/resulting-tree-differs-from-streamed-tree", fmt.Sprintf("on disk %v, streamed %v", gl, wl))
	}
	return fmt.Sprintf("uploaded=%d", len(gl))
}

func c10Run(w *explore.Worker, c c10Case) {
	fail := func(clause, detail string) {
		w.Violation("C10/"+clause, fmt.Sprintf("case %s: %s", js(c), detail), len(c.Tree)*10+len(c.Actions), c)
	}
	seqChecked(w, "C10", c.Mode, c, func() {
		wd := world.New(world.Cfg{
			Accounts: []world.Acct{{Login: "guest", Name: "Guest"}, {Login: "u", Name: "u", Password: "pw", Access: world.AllAccess}},
			Files: func(root string) {
				_ = os.MkdirAll(filepath.Join(root, "Uploads"), 0755)
				_ = os.MkdirAll(filepath.Join(root, "root"), 0755)
				if c.Mode == "download" {
					c10Populate(filepath.Join(root, "root"), c.Tree)
				}
				if (c.Mode == "upload" || c.Mode == "uploadcut") && c.Target != 0 {
					for _, e := range c.Tree {
						if !e.Dir {
							p := filepath.Join(root, "Uploads", "updir", filepath.FromSlash(e.Path))
							_ = os.MkdirAll(filepath.Dir(p), 0755)
							d := c10Data(e.Path, e.Size)
							if c.Target == 1 {
								_ = os.WriteFile(p, d, 0644)
							} else {
								_ = os.WriteFile(p+".incomplete", d[:e.Size/2], 0644)
							}
							break
						}
					}
				}
			},
		})
		defer wd.Close()
		u, r := wd.Connect("10.0.0.1:1001", "u", "pw", "u")
		if r == nil || r.Err != 0 {
			w.Broken("C10: login failed")
			return
		}
		obs := ""
		switch c.Mode {
		case "download":
			items, announced, _ := c10Download(w, c, wd, u, fail)
			obs = c10CheckDownload(c, items, announced, fail)
		case "upload":
			if c10Upload(c, wd, u, -1, fail) {
				obs = c10CheckUploaded(c, wd, fail)
			}
		case "uploadcut":
			c10Upload(c, wd, u, c.Cut, fail)
			// nothing may be published under its final name unless complete: every final file is whole
			for p, v := range world.Tree(filepath.Join(wd.FileRoot, "Uploads", "updir")) {
				if v == "<dir>" || strings.HasSuffix(p, ".incomplete") {
					continue
				}
				for _, e := range c.Tree {
					if e.Path == p && !e.Dir && v != string(c10Data(e.Path, e.Size)) {
						fail("upload/partial-file-published-after-cut", fmt.Sprintf("after a cut at client byte %d, %s exists with %d of %d bytes", c.Cut, p, len(v), e.Size))
					}
				}
			}
			// retry: the same tree again, uncut
			if c10Upload(c, wd, u, -1, fail) {
				obs = c10CheckUploaded(c, wd, fail)
			}
		case "roundtrip":
			if c10Upload(c, wd, u, -1, fail) {
				c10CheckUploaded(c, wd, fail)
				// download what was uploaded: move it under the name the download harness asks for
				_ = os.RemoveAll(filepath.Join(wd.FileRoot, "root"))
				_ = os.Rename(filepath.Join(wd.FileRoot, "Uploads", "updir"), filepath.Join(wd.FileRoot, "root"))
				items, announced, _ := c10Download(w, c, wd, u, fail)
				obs = c10CheckDownload(c, items, announced, fail)
			}
		}
		shape := ""
		for _, e := range c.Tree {
			if e.Dir {
				shape += "d"
			} else {
				shape += "f"
			}
			if hiddenName(e.Path) {
				shape += "."
			}
		}
		w.Outcome(fmt.Sprintf("%s %s %v %d %s", c.Mode, shape, c.Actions, c.Target, obs))
	})
}

// c10Trees: all trees up to n entries over the name alphabets.
func c10Trees(n int) [][]c10Entry {
	top := []string{"a", "b c", ".dot", "sub", ".hid"}
	kids := []string{"x", ".y", "in"}
	sizes := []int{0, 1, 5}
	var out [][]c10Entry
	var rec func(i int, cur []c10Entry)
	rec = func(i int, cur []c10Entry) {
		if i == len(top) {
			if len(cur) > 0 {
				out = append(out, append([]c10Entry(nil), cur...))
			}
			return
		}
		rec(i+1, cur) // absent
		if len(cur) >= n {
			return
		}
		name := top[i]
		if name == "sub" || name == ".hid" {
			// directory with every subset of kids (files of size 1, "in" an empty directory)
			for mask := 0; mask < 1<<len(kids); mask++ {
				d := append(append([]c10Entry(nil), cur...), c10Entry{Path: name, Dir: true})
				for k, kn := range kids {
					if mask&(1<<k) != 0 {
						d = append(d, c10Entry{Path: name + "/" + kn, Dir: kn == "in", Size: map[bool]int{true: 0, false: 1}[kn == "in"]})
					}
				}
				if len(d) <= n {
					rec(i+1, d)
				}
			}
			return
		}
		for _, s := range sizes {
			if name != "a" && s == 0 {
				continue
			}
			rec(i+1, append(append([]c10Entry(nil), cur...), c10Entry{Path: name, Size: s}))
		}
	}
	rec(0, nil)
	return out
}

func c10Cases(thorough bool) []c10Case {
	n := 4
	if thorough {
		n = 5
	}
	var cs []c10Case
	trees := c10Trees(n)
	for _, t := range trees {
		vis, _ := c10Visible(t)
		nf := 0
		for _, e := range vis {
			if !e.Dir {
				nf++
			}
		}
		// every action vector over the visible files
		vec := make([]int, nf)
		for {
			cs = append(cs, c10Case{Mode: "download", Tree: t, Actions: append([]int(nil), vec...)})
			i := 0
			for i < nf {
				vec[i]++
				if vec[i] < 5 {
					break
				}
				vec[i] = 0
				i++
			}
			if i == nf {
				break
			}
		}
		for target := 0; target < 3; target++ {
			cs = append(cs, c10Case{Mode: "upload", Tree: t, Target: target})
		}
		cs = append(cs, c10Case{Mode: "roundtrip", Tree: t})
	}
	// names that are not ASCII: Mac Roman on the wire, UTF-8 on disk, in both directions
	for _, t := range [][]c10Entry{
		{{Path: "é.txt", Size: 5}, {Path: "dé", Dir: true}, {Path: "dé/ü", Size: 1}},
	} {
		for a0 := 0; a0 < 5; a0++ {
			cs = append(cs, c10Case{Mode: "download", Tree: t, Actions: []int{a0, 0}})
		}
		for target := 0; target < 3; target++ {
			cs = append(cs, c10Case{Mode: "upload", Tree: t, Target: target})
		}
		cs = append(cs, c10Case{Mode: "roundtrip", Tree: t})
	}
	// uploads whose items carry a resource fork
	for _, t := range [][]c10Entry{
		{{Path: "a", Size: 5, Rsrc: true}, {Path: "b c", Size: 1}, {Path: "sub", Dir: true}, {Path: "sub/x", Size: 1, Rsrc: true}},
	} {
		for target := 0; target < 3; target++ {
			cs = append(cs, c10Case{Mode: "upload", Tree: t, Target: target})
		}
	}
	// files with stored information / resource forks inside the folder
	for _, t := range [][]c10Entry{
		{{Path: "a", Size: 5, Info: true}, {Path: "b c", Size: 5}},
		{{Path: "a", Size: 5, Info: true, Rsrc: true}, {Path: "b c", Size: 1}},
		{{Path: "a", Size: 1, Rsrc: true}, {Path: "b c", Size: 1}},
		{{Path: "a", Size: 5}, {Path: "sub", Dir: true}, {Path: "sub/x", Size: 1, Info: true}},
	} {
		for a0 := 0; a0 < 5; a0++ {
			for a1 := 0; a1 < 5; a1++ {
				cs = append(cs, c10Case{Mode: "download", Tree: t, Actions: []int{a0, a1}})
			}
		}
	}
	// cut enumeration on two representative trees
	for _, t := range [][]c10Entry{
		{{Path: "a", Size: 5}, {Path: "sub", Dir: true}, {Path: "sub/x", Size: 1}},
		{{Path: "b c", Size: 5}},
	} {
		info := ref.NewInfoFork("a", "TEXT", "ttxt", "")
		total := 16 + 200 + 3*(len(ref.FlatFile(info, make([]byte, 5), nil))+40)
		for k := 1; k < total; k++ {
			cs = append(cs, c10Case{Mode: "uploadcut", Tree: t, Cut: k})
			// the same with a partial copy of the first file already there: the cut falls into a resumed item
			cs = append(cs, c10Case{Mode: "uploadcut", Tree: t, Cut: k, Target: 2})
		}
	}
	return cs
}

func runC10(w *explore.Worker) {
	cs := c10Cases(w.Thorough)
	for i, c := range cs {
		if !w.Next() {
			continue
		}
		if w.Expired() {
			w.Cap("time budget reached")
			return
		}
		w.Eval()
		c10Run(w, c)
		if i%1499 == 0 {
			w.Sample(c)
		}
	}
	if w.Index == 0 {
		w.Count("cases", len(cs))
		w.Count("trees", len(c10Trees(map[bool]int{true: 5, false: 4}[w.Thorough])))
	}
}

func replayC10(w *explore.Worker, raw json.RawMessage) {
	var c c10Case
	if err := json.Unmarshal(raw, &c); err != nil {
		w.Broken("bad replay: %v", err)
		return
	}
	c10Run(w, c)
}
