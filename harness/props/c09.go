package props

import (
	"bytes"
	"encoding/binary"
	"encoding/json"
	"fmt"
	"os"
	"path/filepath"
	"time"

	"github.com/jhalter/mobius/verifh/explore"
	"github.com/jhalter/mobius/verifh/ref"
	"github.com/jhalter/mobius/verifh/vrt"
	"github.com/jhalter/mobius/verifh/world"
)

// C09: uploads are exact, published atomically, and resumable after any cut.

func init() {
	register(&Prop{
		ID:    "C09",
		Level: "fault_enumeration",
		Rule: "E-ENV fault enumeration on the real control and transfer paths with a reference upload client: for data sizes {0,1,8,40,33000} with and without a resource fork / fork preservation, the upload stream (preamble + flattened file) is cut " +
			"at every byte offset (around every structural boundary for the 33000-byte file) by a reset or by a clean end-of-stream, the upload is resumed from the offset the server reports, cut again (all pairs for the small files), and completed; " +
			"after every cut and at the end the directory is compared with the reference; after the first cut a download of the final name is attempted (a partial upload must not be served as a complete file); plus pre-existing target, two uploads of one free name granted before either publishes, resume with nothing to resume, and a final download; distinct = distinct (size, forks, cut-position classes, observation)",
		Assumptions: []string{"a cut delivers a prefix of the stream in order (TCP); up to 2 cuts (thorough 3) before completion", "re-uploading without the resume option over a partial file is not part of the enumerated histories (unspecified)"},
		Run:            runC09,
		Replay:         replayC09,
		MinOutcomes:    10,
		QuickBudget:    150 * time.Second,
		ThoroughBudget: 25 * time.Minute,
	})
}

type c09Case struct {
	Size     int    `json:"size"`
	Rsrc     bool   `json:"rsrc"`     // upload carries a resource fork
	Preserve bool   `json:"preserve"` // server preserves forks
	Cuts     []int  `json:"cuts"`     // cut offset within each successive transfer stream
	EOF      []bool `json:"eof"`      // true: clean end of stream, false: reset
	Existing bool   `json:"existing"` // a complete file of that name already exists
	Huge     uint32 `json:"huge,omitempty"` // the data fork header announces this many bytes (2 GiB and more); the connection dies after a few
	Spoof    string `json:"spoof,omitempty"` // first another upload is attempted under this spelling of the partial file's name
	NoResume bool   `json:"noresume"` // ask to resume although nothing was uploaded
	OwnRoot  bool   `json:"ownroot"`  // the uploading account has its own file root; the server-wide root holds a same-named decoy partial
	Twice    bool   `json:"twice"`    // two upload requests for the name are granted while it is free; the second transfer starts after the first has published
}

func c09Run(w *explore.Worker, c c09Case) {
	fail := func(clause, detail string) {
		w.Violation("C09/"+clause, fmt.Sprintf("case %s: %s", js(c), detail), len(c.Cuts)*1000+c.Size/100, c)
	}
	data := c08Data(c.Size)
	var rsrc []byte
	if c.Rsrc {
		rsrc = c08Rsrc()
	}
	info := ref.NewInfoFork("up.bin", "BINA", "hDmp", "uploaded")
	seqChecked(w, "C09", "upload", c, func() {
		wd := world.New(world.Cfg{
			PreserveForks: c.Preserve,
			Accounts: []world.Acct{{Login: "guest", Name: "Guest"}, {Login: "u", Name: "u", Password: "pw", Access: world.AllAccess, FileRoot: map[bool]string{true: "$CONFIG/Rroot", false: ""}[c.OwnRoot]}},
			Files: func(root string) {
				_ = os.MkdirAll(filepath.Join(root, "Uploads"), 0755)
				if c.OwnRoot {
					_ = os.MkdirAll(filepath.Join(filepath.Dir(root), "Rroot", "Uploads"), 0755)
					_ = os.WriteFile(filepath.Join(root, "Uploads", "up.bin.incomplete"), []byte("DEC"), 0644) // decoy in the server-wide root
				}
				if c.Existing {
					_ = os.WriteFile(filepath.Join(root, "Uploads", "up.bin"), []byte("precious original"), 0644)
				}
			},
		})
		defer wd.Close()
		u, r := wd.Connect("10.0.0.1:1001", "u", "pw", "u")
		if r == nil || r.Err != 0 {
			w.Broken("C09: login failed")
			return
		}
		final := filepath.Join(wd.FileRoot, "Uploads", "up.bin")
		if c.OwnRoot {
			final = filepath.Join(wd.ConfigDir, "Rroot", "Uploads", "up.bin")
		}
		partial := final + ".incomplete"
		delivered := 0 // data-fork bytes the server has been given so far
		var obs []string

		answered := false // whether the last upload request got any reply
		request := func(resume bool) (refnum []byte, offset int, ok bool) {
			fs := []ref.Fld{ref.FS(ref.FFileName, "up.bin"), ref.F(ref.FFilePath, ref.PathBytes("Uploads"))}
			if resume {
				fs = append(fs, ref.F16(ref.FFileXferOptions, 1))
			} else {
				fs = append(fs, ref.F32(ref.FTransferSize, uint32(len(ref.FlatFile(info, data, rsrc)))))
			}
			id := u.Req(ref.TUploadFile, fs...)
			world.Quiet()
			rep := u.Reply(id)
			answered = rep != nil
			if rep == nil || rep.Err != 0 {
				return nil, 0, false
			}
			refnum, _ = rep.Get(ref.FRefNum)
			if rd, has := rep.Get(ref.FFileResumeData); has {
				o, err := ref.DecodeResumeData(rd)
				if err != nil {
					fail("resume-data-undecodable", err.Error())
				}
				offset = int(o)
			} else if resume {
				fail("resume-reply-without-offset", fmt.Sprint(rep))
			}
			return refnum, offset, len(refnum) == 4
		}
		checkPartial := func(when string) {
			if _, err := os.Stat(final); err == nil {
				got, _ := os.ReadFile(final)
				fail("final-name-exists-before-the-data-fork-is-complete", fmt.Sprintf("%s: final file exists with %d bytes although only %d of %d data bytes were delivered", when, len(got), delivered, len(data)))
			}
			got, err := os.ReadFile(partial)
			if err != nil {
				if delivered != 0 {
					fail("partial-file-missing", fmt.Sprintf("%s: %d data bytes were delivered but there is no .incomplete file", when, delivered))
				}
				return
			}
			if !bytes.Equal(got, data[:delivered]) {
				fail("partial-file-is-not-the-prefix-received", fmt.Sprintf("%s: .incomplete has %d bytes (equal prefix %d), delivered prefix is %d bytes", when, len(got), commonPrefix(got, data), delivered))
			}
		}

		// probeDownload: while only part of the data fork has arrived, the final name must not be
		// downloadable as if it were a complete file
		probeDownload := func(when string) {
			id := u.Req(ref.TDownloadFile, ref.FS(ref.FFileName, "up.bin"), ref.F(ref.FFilePath, ref.PathBytes("Uploads")))
			world.Quiet()
			rep := u.Reply(id)
			if rep == nil || rep.Err != 0 {
				return
			}
			refnum, _ := rep.Get(ref.FRefNum)
			conn := wd.DialTransfer("10.0.0.1:2888")
			conn.Feed(ref.Preamble(refnum, 0))
			world.Settle(10 * time.Second)
			conn.CloseWrite()
			world.Settle(10 * time.Second)
			if p, err := ref.ParseFlat(conn.All()); err == nil && p.DataDecl > 0 && len(p.Rest) >= int(p.DataDecl) {
				fail("partial-upload-served-as-a-complete-file-under-its-final-name", fmt.Sprintf("%s: a download of the final name delivered a well-formed file of %d data bytes although only %d of %d bytes have been uploaded", when, p.DataDecl, delivered, len(data)))
			}
		}

		if c.Twice {
			// two clients (here: two requests) are granted an upload of the same free name; the first transfer
			// completes and publishes; the second must not replace the published file
			ref1, _, ok1 := request(false)
			ref2, _, ok2 := request(false)
			if !ok1 {
				fail("upload-request-refused", "first request")
				return
			}
			c1 := wd.DialTransfer("10.0.0.1:2001")
			c1.Feed(append(ref.Preamble(ref1, 0), ref.FlatFile(info, data, rsrc)...))
			world.Settle(10 * time.Second)
			if got, err := os.ReadFile(final); err != nil || !bytes.Equal(got, data) {
				fail("completed-upload-not-published", fmt.Sprintf("first of two uploads: %v, %d bytes", err, len(got)))
				return
			}
			if ok2 {
				other := bytes.Repeat([]byte("Z"), len(data)/2+3)
				c2 := wd.DialTransfer("10.0.0.1:2002")
				c2.Feed(append(ref.Preamble(ref2, 0), ref.FlatFile(info, other, nil)...))
				world.Settle(10 * time.Second)
				if got, _ := os.ReadFile(final); !bytes.Equal(got, data) {
					fail("existing-file-overwritten", fmt.Sprintf("a second upload granted before the first one published replaced the published file: %d bytes (equal prefix %d), the published upload had %d", len(got), commonPrefix(got, data), len(data)))
				}
			}
			w.Outcome(fmt.Sprintf("twice size=%d second-granted=%v", sizeClass(c.Size), ok2))
			return
		}

		if c.Existing {
			_, _, ok := request(false)
			if ok {
				// the server granted it: run the transfer and see whether the original survives
				refnum, _, _ := request(false)
				_ = refnum
			}
			conn := wd.DialTransfer("10.0.0.1:2001")
			if ok {
				fail("upload-over-existing-file-not-refused", "the upload request for an existing name was granted")
			}
			_ = conn
			got, _ := os.ReadFile(final)
			if string(got) != "precious original" {
				fail("existing-file-overwritten", fmt.Sprintf("%q", got))
			}
			w.Outcome("existing refused=" + fmt.Sprint(!ok))
			return
		}
		if c.Huge != 0 {
			// an upload that announces a data fork of 2 GiB or more and dies after its first bytes: like every cut
			// upload it leaves the bytes received as a partial file and nothing under the final name
			refnum, _, ok := request(false)
			if !ok {
				w.Outcome("huge refused")
				return
			}
			stream := append(ref.Preamble(refnum, 0), ref.FlatFile(info, data, nil)...)
			hdr := 16 + ref.FlatFileHeaderLen(info)
			binary.BigEndian.PutUint32(stream[hdr-4:hdr], c.Huge)
			conn := wd.DialTransfer("10.0.0.1:2001")
			conn.Feed(stream)
			conn.Reset()
			world.Settle(10 * time.Second)
			delivered = len(data)
			checkPartial(fmt.Sprintf("after a cut %d bytes into a data fork announced with %d bytes", len(data), c.Huge))
			w.Outcome(fmt.Sprintf("huge %x", c.Huge>>28))
			return
		}
		if c.NoResume {
			// a resume attempt while the server holds nothing of the file (the earlier connection died inside the
			// 16-byte preamble, say): it is answered - refused, or granted from offset 0, in which case it completes
			refnum, offset, ok := request(true)
			if !answered {
				fail("resume-request-not-answered", "the server holds no partial file: the resume request got no reply at all, neither an offset nor an error")
			}
			if _, err := os.Stat(final); err == nil {
				fail("final-name-created-by-empty-resume", "")
			}
			if ok {
				if offset != 0 {
					fail("reported-resume-offset-wrong", fmt.Sprintf("nothing is stored, the server reports offset %d", offset))
				}
				conn := wd.DialTransfer("10.0.0.1:2001")
				conn.Feed(append(ref.Preamble(refnum, 0), ref.FlatFile(info, data, rsrc)...))
				world.Settle(10 * time.Second)
				if got, err := os.ReadFile(final); err != nil || !bytes.Equal(got, data) {
					fail("published-file-differs-from-what-was-sent", fmt.Sprintf("resume from offset 0: %v, %d bytes, sent %d", err, len(got), len(data)))
				}
			}
			w.Outcome("noresume ok=" + fmt.Sprint(ok))
			return
		}

		if c.Spoof != "" {
			// an upload under a spelling of "<name>.incomplete": refused, or at least not taken for partial data of <name>
			fs := []ref.Fld{ref.FS(ref.FFileName, c.Spoof), ref.F(ref.FFilePath, ref.PathBytes("Uploads")), ref.F32(ref.FTransferSize, 400)}
			id := u.Req(ref.TUploadFile, fs...)
			world.Quiet()
			if rep := u.Reply(id); rep != nil && rep.Err == 0 {
				if rn, ok := rep.Get(ref.FRefNum); ok {
					sp := wd.DialTransfer("10.0.0.1:2900")
					sp.Feed(append(ref.Preamble(rn, 0), ref.FlatFile(info, bytes.Repeat([]byte("A"), 300), nil)...))
					world.Settle(10 * time.Second)
				}
			}
		}
		attempts := append(append([]int(nil), c.Cuts...), -1) // -1 = uncut
		for ai, cut := range attempts {
			// the reference client asks to resume after every cut; when the server holds nothing of the file it may
			// grant that from offset 0 or refuse it with an error reply, after which the client starts afresh
			_, perr := os.Stat(partial)
			resume := ai > 0
			refnum, offset, ok := request(resume)
			if resume && !answered {
				fail("resume-request-not-answered", fmt.Sprintf("attempt %d: no reply at all (partial file present: %v)", ai, perr == nil))
				return
			}
			if !ok && resume && perr != nil {
				// refused with an error reply while nothing is stored: start afresh
				resume = false
				refnum, offset, ok = request(false)
			}
			if !ok {
				fail("upload-request-refused", fmt.Sprintf("attempt %d (resume=%v)", ai, resume))
				return
			}
			if resume {
				st, err := os.Stat(partial)
				have := 0
				if err == nil {
					have = int(st.Size())
				}
				if offset != have || offset != delivered {
					fail("reported-resume-offset-wrong", fmt.Sprintf("attempt %d: server reports offset %d, .incomplete has %d bytes, %d data bytes were delivered", ai, offset, have, delivered))
				}
				if offset > len(data) {
					return
				}
			} else {
				offset = 0
			}
			stream := append(ref.Preamble(refnum, 0), ref.FlatFile(info, data[offset:], rsrc)...)
			hdr := 16 + ref.FlatFileHeaderLen(info)
			conn := wd.DialTransfer(fmt.Sprintf("10.0.0.1:%d", 2001+ai))
			if cut >= 0 && cut < len(stream) {
				conn.Feed(stream[:cut])
				if c.EOF[ai] {
					conn.CloseWrite()
				} else {
					conn.Reset()
				}
				world.Settle(10 * time.Second)
				got := cut - hdr
				if got < 0 {
					got = 0
				}
				if got > len(data)-offset {
					got = len(data) - offset
				}
				if cut >= 16 { // the transfer was at least identified
					delivered = offset + got
				}
				if cut >= hdr+len(data)-offset && rsrc == nil {
					// the whole header and every data byte arrived before the cut: this is a complete upload
					break
				}
				checkPartial(fmt.Sprintf("after cut %d at stream offset %d", ai, cut))
				if ai == 0 && delivered > 0 && delivered < len(data) {
					probeDownload(fmt.Sprintf("after cut %d at stream offset %d", ai, cut))
				}
				obs = append(obs, fmt.Sprintf("cut@%s", cutClass(cut, hdr, len(stream))))
				continue
			}
			conn.Feed(stream)
			world.Settle(10 * time.Second)
			delivered = len(data)
			break
		}
		// completion
		got, err := os.ReadFile(final)
		if err != nil {
			fail("completed-upload-not-published", fmt.Sprintf("all %d data bytes were delivered but the final name does not exist (%v)", len(data), err))
		} else if !bytes.Equal(got, data) {
			fail("published-file-differs-from-what-was-sent", fmt.Sprintf("final file has %d bytes (equal prefix %d), sent %d", len(got), commonPrefix(got, data), len(data)))
		}
		if _, err := os.Stat(partial); err == nil {
			fail("partial-file-left-after-completion", "")
		}
		// what was uploaded is what a later download returns
		id := u.Req(ref.TDownloadFile, ref.FS(ref.FFileName, "up.bin"), ref.F(ref.FFilePath, ref.PathBytes("Uploads")))
		world.Quiet()
		if rep := u.Reply(id); rep == nil || rep.Err != 0 {
			fail("download-of-uploaded-file-refused", fmt.Sprint(rep))
		} else {
			refnum, _ := rep.Get(ref.FRefNum)
			conn := wd.DialTransfer("10.0.0.1:2999")
			conn.Feed(ref.Preamble(refnum, 0))
			world.Settle(10 * time.Second)
			p, perr := ref.ParseFlat(conn.All())
			if perr != nil {
				fail("download-of-uploaded-file-unparseable", perr.Error())
			} else if len(p.Rest) < len(data) || !bytes.Equal(p.Rest[:len(data)], data) {
				fail("download-returns-different-bytes-than-uploaded", fmt.Sprintf("equal prefix %d of %d", commonPrefix(p.Rest, data), len(data)))
			} else if c.Preserve && rsrc != nil {
				tail := p.Rest[len(data):]
				if len(tail) != 16+len(rsrc) || !bytes.Equal(tail[16:], rsrc) || binary.BigEndian.Uint32(tail[12:16]) != uint32(len(rsrc)) {
					fail("download-returns-different-resource-fork-than-uploaded", fmt.Sprintf("%d bytes after the data fork, uploaded resource fork %d bytes", len(tail), len(rsrc)))
				}
			}
		}
		w.Outcome(fmt.Sprintf("%d rsrc=%v pres=%v %v", sizeClass(c.Size), c.Rsrc, c.Preserve, obs))
	})
}

func cutClass(cut, hdr, total int) string {
	switch {
	case cut < 16:
		return "preamble"
	case cut < hdr:
		return "header"
	case cut == hdr:
		return "data-start"
	case cut >= total-1:
		return "last-byte"
	default:
		return "data"
	}
}

func c09Cases(thorough bool) []c09Case {
	var cs []c09Case
	info := ref.NewInfoFork("up.bin", "BINA", "hDmp", "uploaded")
	for _, sz := range []int{0, 1, 8, 40, 33000} {
		for _, variant := range []struct{ rsrc, pres bool }{{false, false}, {true, true}, {true, false}, {false, true}} {
			var rs []byte
			if variant.rsrc {
				rs = c08Rsrc()
			}
			total := 16 + len(ref.FlatFile(info, make([]byte, sz), rs))
			hdr := 16 + ref.FlatFileHeaderLen(info)
			var offs []int
			if sz <= 40 {
				for k := 0; k < total; k++ {
					offs = append(offs, k)
				}
			} else {
				for k := 0; k <= hdr+8; k++ {
					offs = append(offs, k)
				}
				for _, k := range []int{hdr + 4095, hdr + 4096, hdr + 4097, hdr + 32767, hdr + 32768, hdr + 32769, 32768, 32769, hdr + sz - 2, hdr + sz - 1, hdr + sz, hdr + sz + 1, hdr + sz + 15, hdr + sz + 16, hdr + sz + 17, total - 2, total - 1} {
					if k < total {
						offs = append(offs, k)
					}
				}
			}
			for _, k := range offs {
				for _, eof := range []bool{false, true} {
					cs = append(cs, c09Case{Size: sz, Rsrc: variant.rsrc, Preserve: variant.pres, Cuts: []int{k}, EOF: []bool{eof}})
				}
			}
			// two cuts: all pairs for the 8-byte file (1-byte and 40-byte in the thorough tier), boundary pairs otherwise
			if sz == 8 || (thorough && (sz == 1 || sz == 40)) {
				if !variant.rsrc || thorough {
					for _, k1 := range offs {
						for _, k2 := range offs {
							cs = append(cs, c09Case{Size: sz, Rsrc: variant.rsrc, Preserve: variant.pres, Cuts: []int{k1, k2}, EOF: []bool{k1%2 == 0, k2%2 == 1}})
						}
					}
				}
			} else if sz == 33000 {
				for _, k1 := range []int{hdr, hdr + 1, hdr + 4096, hdr + 32768, hdr + sz - 1} {
					for _, k2 := range []int{10, hdr, hdr + 1, hdr + 100} {
						cs = append(cs, c09Case{Size: sz, Rsrc: variant.rsrc, Preserve: variant.pres, Cuts: []int{k1, k2}, EOF: []bool{false, true}})
					}
				}
			}
			if thorough && sz == 8 && !variant.rsrc {
				for _, k1 := range []int{hdr + 1, hdr + 3} {
					for _, k2 := range []int{5, hdr - 1, hdr + 1, hdr + 2} {
						for _, k3 := range offs {
							cs = append(cs, c09Case{Size: sz, Preserve: variant.pres, Cuts: []int{k1, k2, k3}, EOF: []bool{false, true, k3%2 == 0}})
						}
					}
				}
			}
			cs = append(cs, c09Case{Size: sz, Rsrc: variant.rsrc, Preserve: variant.pres}) // uncut
			if sz == 8 || sz == 40 {
				cs = append(cs, c09Case{Size: sz, Rsrc: variant.rsrc, Preserve: variant.pres, OwnRoot: true})
				for _, k := range offs {
					cs = append(cs, c09Case{Size: sz, Rsrc: variant.rsrc, Preserve: variant.pres, Cuts: []int{k}, EOF: []bool{k%2 == 0}, OwnRoot: true})
				}
			}
		}
		cs = append(cs, c09Case{Size: sz, Huge: 0x80000000}, c09Case{Size: sz, Huge: 0xfffffff0})
		for _, sp := range []string{"up.bin.incomplete", "up.bin.incomplete/.", "x/../up.bin.incomplete", "up.bin.incomplete/"} {
			cs = append(cs, c09Case{Size: sz, Spoof: sp})
		}
		cs = append(cs, c09Case{Size: sz, Existing: true}, c09Case{Size: sz, NoResume: true}, c09Case{Size: sz, Twice: true}, c09Case{Size: sz, Twice: true, Rsrc: true, Preserve: true})
	}
	return cs
}

// c09Race (E-SCHED): the client's connection is cut while the server has not yet consumed everything
// that arrived, and the client asks to resume at once. Whatever the interleaving of the draining
// transfer and the resume request: a refused resume may be retried, and the upload resumed from the
// offset the server reports completes to the identical file.
func c09Race(segments int) func() explore.SchedOutcome {
	return func() (out explore.SchedOutcome) {
		fail := func(clause, detail string) {
			out.Violations = append(out.Violations, explore.SchedV{Signature: "C09/race/" + clause, Detail: detail})
		}
		vrt.BeginSetup()
		wd := world.New(world.Cfg{Accounts: []world.Acct{{Login: "guest", Name: "Guest"}, {Login: "u", Name: "u", Password: "pw", Access: world.AllAccess}},
			Files: func(root string) { _ = os.MkdirAll(filepath.Join(root, "Uploads"), 0755) }})
		defer wd.Close()
		u, r := wd.Connect("10.0.0.1:1001", "u", "pw", "u")
		if r == nil || r.Err != 0 {
			fail("setup", "login failed")
			return
		}
		data := c08Data(100)
		info := ref.NewInfoFork("up.bin", "BINA", "hDmp", "")
		final := filepath.Join(wd.FileRoot, "Uploads", "up.bin")
		request := func(resume bool) (*ref.Tx, uint32) {
			fs := []ref.Fld{ref.FS(ref.FFileName, "up.bin"), ref.F(ref.FFilePath, ref.PathBytes("Uploads"))}
			if resume {
				fs = append(fs, ref.F16(ref.FFileXferOptions, 1))
			} else {
				fs = append(fs, ref.F32(ref.FTransferSize, 300))
			}
			return nil, u.Req(ref.TUploadFile, fs...)
		}
		_, id := request(false)
		world.Quiet()
		rep := u.Reply(id)
		if rep == nil || rep.Err != 0 {
			fail("setup", "upload request refused")
			return
		}
		refnum, _ := rep.Get(ref.FRefNum)
		stream := append(ref.Preamble(refnum, 0), ref.FlatFile(info, data, nil)...)
		hdr := 16 + ref.FlatFileHeaderLen(info)
		conn := wd.DialTransfer("10.0.0.1:2001")
		conn.Feed(stream[:hdr])
		world.Settle(time.Second)
		vrt.EndSetup()
		// the data arrives in segments, the connection is cut, and the client asks to resume straight away
		for i := 0; i < segments; i++ {
			conn.Feed(stream[hdr+10*i : hdr+10*i+10])
		}
		conn.Reset()
		_, rid := request(true)
		vrt.WaitQuiet()
		rrep := u.Reply(rid)
		if rrep == nil || rrep.Err != 0 {
			// refused while the old transfer was still running: the client tries again once things are quiet
			_, rid = request(true)
			vrt.WaitQuiet()
			rrep = u.Reply(rid)
			if rrep == nil || rrep.Err != 0 {
				fail("resume-refused-although-nothing-is-running", fmt.Sprint(rrep))
				return
			}
		}
		rd, has := rrep.Get(ref.FFileResumeData)
		off, err := ref.DecodeResumeData(rd)
		if !has || err != nil || int(off) > len(data) {
			fail("resume-data-undecodable", fmt.Sprintf("%v %v offset %d", has, err, off))
			return
		}
		ref2, _ := rrep.Get(ref.FRefNum)
		c2 := wd.DialTransfer("10.0.0.1:2002")
		c2.Feed(append(ref.Preamble(ref2, 0), ref.FlatFile(info, data[off:], nil)...))
		vrt.Settle(10 * time.Second)
		got, rerr := os.ReadFile(final)
		if rerr != nil {
			fail("completed-upload-not-published", rerr.Error())
		} else if !bytes.Equal(got, data) {
			fail("published-file-differs-from-what-was-sent", fmt.Sprintf("the server reported offset %d while the cut transfer was still being consumed; resumed from there the published file has %d bytes (equal prefix %d), sent %d", off, len(got), commonPrefix(got, data), len(data)))
		}
		for _, pn := range vrt.S.Panics() {
			fail("panic/"+vrt.PanicSite(pn), pn)
		}
		out.Canon = fmt.Sprintf("offset=%d final=%d", off, len(got))
		return out
	}
}

func runC09(w *explore.Worker) {
	bound := 1
	if w.Thorough {
		bound = 2
	}
	for _, seg := range []int{3, 7} {
		explore.ExploreSchedules(w, explore.SchedConfig{Harness: "C09race", Params: fmt.Sprint(seg), Bound: bound, FreeCost: 1, MaxSteps: 20000, Suspend: true}, c09Race(seg))
	}
	cs := c09Cases(w.Thorough)
	for i, c := range cs {
		if !w.Next() {
			continue
		}
		if w.Expired() {
			w.Cap("time budget reached")
			return
		}
		w.Eval()
		c09Run(w, c)
		if i%307 == 0 {
			w.Sample(c)
		}
	}
	if w.Index == 0 {
		w.Count("cases", len(cs))
		w.Count("cut_points", len(cs))
	}
}

func replayC09(w *explore.Worker, raw json.RawMessage) {
	var sr explore.SchedReplay
	if json.Unmarshal(raw, &sr) == nil && sr.Kind == "schedule" {
		seg := 3
		fmt.Sscan(sr.Params, &seg)
		_, out, err := explore.RunSchedule(sr.Choices, 20000, c09Race(seg))
		if err != nil {
			w.Broken("replay: %v", err)
		}
		for _, v := range out.Violations {
			w.Violation(v.Signature, v.Detail, 0, sr)
		}
		return
	}
	var c c09Case
	if err := json.Unmarshal(raw, &c); err != nil {
		w.Broken("bad replay: %v", err)
		return
	}
	c09Run(w, c)
}
