package props

import (
	"bytes"
	"encoding/json"
	"fmt"
	"strings"
	"time"

	"golang.org/x/crypto/bcrypt"

	"github.com/jhalter/mobius/verifh/explore"
	"github.com/jhalter/mobius/verifh/ref"
	"github.com/jhalter/mobius/verifh/vrt"
	"github.com/jhalter/mobius/verifh/world"
)

// C04: nothing is served before a successful login.

func init() {
	register(&Prop{
		ID:    "C04",
		Level: "model_checking",
		Rule: "bounded-exhaustive input enumeration on the real connection loop with a logged-in observer: handshake variants (valid, each significant byte flipped, other versions, every truncation) x " +
			"first transaction (login or any of the registered types, with/without credential fields) x (login, password) alphabets x account databases x banned/not banned x one or two appended transactions " +
			"from the request corpus; an invalid handshake sent as k + (12-k) bytes around another peer's valid handshake (k = 1..11); E-SCHED: a refused and an accepted login in flight together, a ban-list reload against connections from banned addresses; distinct = distinct (logged-in?, bytes-received class, world-changed?) observations per family",
		Assumptions:    []string{"reference decision uses bcrypt on the harness's own account table", "credential alphabets are small (7 logins x 8 passwords); appended transactions from a 60-request corpus, at most two"},
		Run:            runC04,
		Replay:         replayC04,
		MinOutcomes:    6,
		QuickBudget:    100 * time.Second,
		ThoroughBudget: 20 * time.Minute,
	})
}

type c04Case struct {
	DB         int    `json:"db"`         // 0 guest+admin+obs, 1 no guest, 2 guest with password
	HS         []byte `json:"hs"`         // handshake bytes sent
	FirstTyp   uint16 `json:"first"`      // type of the first transaction
	NoCreds    bool   `json:"nocreds"`    // first transaction carries no login/password fields
	Login      string `json:"login"`      // as typed (obfuscated on the wire)
	Pw         string `json:"pw"`         // as typed
	RawPw      []byte `json:"rawpw"`      // if set: raw password field bytes (not obfuscated)
	Appended   []int  `json:"appended"`   // indices into c05Kinds
	OneSeg     bool   `json:"oneseg"`     // everything in one TCP segment
	Banned     int    `json:"banned"`     // 0 no, 1 permanent, 2 temporary (future)
	Style15    bool   `json:"style15"`    // login carries a version field and no name
	Interleave int    `json:"interleave"` // >0: the handshake is sent as Interleave + rest bytes with another peer's valid handshake in between
}

var c04DBs = [][]world.Acct{
	{{Login: "guest", Name: "Guest", Access: world.Bits(ref.PReadChat, ref.PSendChat)}, {Login: "admin", Name: "Admin", Password: "secret", Access: world.AllAccess}, {Login: "obs", Name: "obs", Password: "op", Access: world.AllAccess}},
	{{Login: "admin", Name: "Admin", Password: "secret", Access: world.AllAccess}, {Login: "obs", Name: "obs", Password: "op", Access: world.AllAccess}},
	{{Login: "guest", Name: "Guest", Password: "gp", Access: world.Bits(ref.PReadChat)}, {Login: "admin", Name: "Admin", Password: strings.Repeat("x", 72), Access: world.AllAccess}, {Login: "obs", Name: "obs", Password: "op", Access: world.AllAccess}},
}

func strp(s string) *string { return &s }

func init() {
	// DB 3: accounts whose stored password is not a usable hash (hand-edited file, empty value): nobody logs in as them
	c04DBs = append(c04DBs, []world.Acct{
		{Login: "guest", Name: "Guest", Access: world.Bits(ref.PReadChat)},
		{Login: "admin", Name: "Admin", RawHash: strp(""), Access: world.AllAccess},
		{Login: "nosuch", Name: "Plain", RawHash: strp("secret"), Access: world.AllAccess},
		{Login: "ADMIN", Name: "Trunc", RawHash: strp("$2a$04$abcdefghijklmnopqrstu"), Access: world.AllAccess},
		{Login: "obs", Name: "obs", Password: "op", Access: world.AllAccess},
	})
}

// c04Expect: the reference decision, computed from the harness's own account table.
func c04Expect(c c04Case) (validHS, loggedIn bool) {
	validHS = len(c.HS) == 12 && string(c.HS[0:4]) == "TRTP" && string(c.HS[4:8]) == "HOTL"
	if !validHS {
		return
	}
	login := c.Login
	var pwField []byte
	if c.NoCreds {
		login = ""
		pwField = nil
	} else if c.RawPw != nil {
		pwField = c.RawPw
	} else {
		pwField = ref.Obfuscate([]byte(c.Pw))
	}
	if login == "" {
		login = "guest"
	}
	for _, a := range c04DBs[c.DB] {
		if a.Login == login {
			hash := world.HashPw(a.Password)
			if a.RawHash != nil {
				hash = *a.RawHash
			}
			loggedIn = bcrypt.CompareHashAndPassword([]byte(hash), pwField) == nil
			if a.RawHash == nil {
				// a well-formed stored hash: the property's words - exactly the account's current password
				loggedIn = string(pwField) == string(ref.Obfuscate([]byte(a.Password)))
			}
			if len(pwField) > 72 {
				// beyond bcrypt's input limit (outside the quantifier; kept as a boundary probe): bcrypt itself
				// only reads 72 bytes, the property says "that account's current password" - exactly that one
				loggedIn = a.RawHash == nil && string(pwField) == string(ref.Obfuscate([]byte(a.Password)))
			}
		}
	}
	return
}

func c04Run(w *explore.Worker, c c04Case) {
	if c.Interleave > 0 {
		c04Interleaved(w, c.Interleave)
		return
	}
	fail := func(clause, detail string) {
		w.Violation("C04/"+clause, fmt.Sprintf("case %s: %s", js(c), detail), len(c.Appended)+len(c.HS)%12, c)
	}
	validHS, wantIn := c04Expect(c)
	seqChecked(w, "C04", "session", c, func() {
		cfg := world.Cfg{Board: "board-secret text\r", NewsYAML: c05News, Files: c05Files, Accounts: c04DBs[c.DB], Agreement: "the agreement"}
		switch c.Banned {
		case 1:
			cfg.BanYAML = "10.0.0.66: null\n"
		case 2:
			cfg.BanYAML = "10.0.0.66: 2024-03-05T10:20:00Z\n" // 20 minutes after the virtual epoch
		}
		wd := world.New(cfg)
		defer wd.Close()
		obs, r1 := wd.Connect("10.0.0.3:1003", "obs", "op", "obs")
		if r1 == nil || r1.Err != 0 {
			w.Broken("C04: observer login failed")
			return
		}
		usersBefore := fmt.Sprint(wd.UserList(obs))
		obs.New()
		before := strings.Join(world.SnapshotDir(wd.Dir), "\n")

		h := wd.Dial("10.0.0.66:6666")
		first := ref.Tx{Type: c.FirstTyp, ID: 0x51}
		if !c.NoCreds {
			pw := ref.Obfuscate([]byte(c.Pw))
			if c.RawPw != nil {
				pw = c.RawPw
			}
			first.Fields = append(first.Fields, ref.F(ref.FUserLogin, ref.Obfuscate([]byte(c.Login))), ref.F(ref.FUserPassword, pw))
		}
		if c.Style15 {
			first.Fields = append(first.Fields, ref.F16(ref.FVersion, 190))
		} else {
			first.Fields = append(first.Fields, ref.FS(ref.FUserName, "hh"), ref.F16(ref.FUserIconID, 5))
		}
		var segs [][]byte
		segs = append(segs, append([]byte(nil), c.HS...))
		if len(c.HS) == 12 {
			segs = append(segs, first.Encode())
			ctx := c05Ctx{obsID: 1, tgtID: 1, uID: 2}
			for i, k := range c.Appended {
				t := c05Kinds[k].Build(ctx)
				t.ID = uint32(0x60 + i)
				segs = append(segs, t.Encode())
			}
		}
		// the handshake always arrives alone (performHandshake's one-read limitation is C02's subject);
		// OneSeg delivers the first transaction and everything appended in a single segment
		h.Conn.Feed(segs[0])
		if c.OneSeg {
			var rest []byte
			for _, sg := range segs[1:] {
				rest = append(rest, sg...)
			}
			h.Conn.Feed(rest)
		} else {
			for _, sg := range segs[1:] {
				h.Conn.Feed(sg)
			}
		}
		if len(c.HS) < 12 {
			h.Hangup()
		}
		world.Settle(15 * time.Second)
		h.Poll()
		raw := h.Conn.All()
		newObs := obs.New()
		after := strings.Join(world.SnapshotDir(wd.Dir), "\n")
		usersAfter := fmt.Sprint(wd.UserList(obs))
		obs.New()

		// classify what the peer received
		var greeting []byte
		rest := raw
		if len(raw) >= 8 {
			greeting, rest = raw[:8], raw[8:]
		} else {
			greeting, rest = raw, nil
		}
		txs, trailing, perr := ref.DecodeStream(rest)
		gotIn := false
		for _, t := range txs {
			if t.IsReply == 1 && t.ID == 0x51 && t.Err == 0 {
				gotIn = true
			}
		}
		class := fmt.Sprintf("greet=%x tx=%d", greeting, len(txs))

		switch {
		case !validHS:
			if !(len(raw) == 0 || (len(raw) == 8 && string(raw[:4]) == "TRTP" && !bytes.Equal(raw[4:8], []byte{0, 0, 0, 0}))) {
				fail("invalid-handshake-answered", fmt.Sprintf("received %x", raw))
			}
		case c.Banned != 0:
			if !bytes.Equal(greeting, ref.HandshakeReply()) {
				fail("banned/handshake-reply-missing", fmt.Sprintf("%x", greeting))
			}
			if perr != nil || len(trailing) != 0 || len(txs) != 1 || txs[0].Type != ref.TServerMsg {
				fail("banned/not-exactly-one-ban-notice", fmt.Sprintf("received %d transactions %v trailing %d err %v", len(txs), txs, len(trailing), perr))
			}
		case !wantIn:
			if !bytes.Equal(greeting, ref.HandshakeReply()) {
				fail("refused/handshake-reply-missing", fmt.Sprintf("%x", greeting))
			}
			if gotIn {
				fail("logged-in-without-valid-credentials", fmt.Sprintf("login reply without error: %v", txs))
			}
			if perr != nil || len(trailing) != 0 || len(txs) > 1 {
				fail("refused/more-than-one-transaction-sent-to-unauthenticated-peer", fmt.Sprintf("received %d transactions: %v", len(txs), txs))
			}
			if len(txs) == 1 && !(txs[0].IsReply == 1 && txs[0].ID == 0x51 && txs[0].Err != 0) {
				fail("refused/response-is-not-an-error-reply-to-the-first-transaction", fmt.Sprint(txs[0]))
			}
			if len(txs) == 0 {
				fail("refused/no-error-reply", "nothing after the handshake reply")
			}
		default:
			if !gotIn {
				fail("valid-credentials-refused", fmt.Sprintf("received %v", txs))
			}
		}
		if !(validHS && wantIn && c.Banned == 0) {
			if !h.Conn.Closed {
				fail("connection-left-open-after-refusal", "")
			}
			if after != before {
				fail("world-changed-by-unauthenticated-peer", diffLines(before, after))
			}
			if usersAfter != usersBefore {
				fail("user-list-changed-by-unauthenticated-peer", usersBefore+" -> "+usersAfter)
			}
			if len(newObs) != 0 {
				sig := "others-received-traffic-caused-by-unauthenticated-peer"
				types := map[uint16]bool{}
				for _, t := range newObs {
					types[t.Type] = true
				}
				if len(types) == 1 && types[ref.TNotifyDeleteUser] {
					sig += "/user-left-notice"
				}
				fail(sig, fmt.Sprintf("observer received %v", newObs))
			}
		}
		w.Outcome(fmt.Sprintf("valid=%v want=%v banned=%d got=%v %s obs=%d changed=%v", validHS, wantIn, c.Banned, gotIn, class, len(newObs), after != before))
	})
}

func diffLines(a, b string) string {
	am := map[string]bool{}
	for _, l := range strings.Split(a, "\n") {
		am[l] = true
	}
	bm := map[string]bool{}
	var out []string
	for _, l := range strings.Split(b, "\n") {
		bm[l] = true
		if !am[l] {
			out = append(out, "+ "+l)
		}
	}
	for _, l := range strings.Split(a, "\n") {
		if !bm[l] {
			out = append(out, "- "+l)
		}
	}
	return clip(strings.Join(out, "\n"), 1500)
}

func c04Cases(thorough bool) []c04Case {
	var cs []c04Case
	valid := ref.Handshake()
	good := func() c04Case { return c04Case{DB: 0, HS: valid, FirstTyp: ref.TLogin, Login: "admin", Pw: "secret"} }
	// (a) handshake family
	var hss [][]byte
	for i := 0; i < 8; i++ {
		h := append([]byte(nil), valid...)
		h[i] ^= 0x20
		hss = append(hss, h)
	}
	hss = append(hss, []byte("TRTPHOTL\x00\x02\x00\x02"), []byte("TRTPHOTL\xff\xff\xff\xff"), []byte("HOTLTRTP\x00\x01\x00\x02"), make([]byte, 12))
	for n := 0; n < 12; n++ {
		hss = append(hss, valid[:n])
	}
	postNews := -1
	for i, k := range c05Kinds {
		if k.Name == "post-message-board" {
			postNews = i
		}
	}
	for _, h := range hss {
		c := good()
		c.HS = h
		cs = append(cs, c)
		c.Appended = []int{postNews}
		cs = append(cs, c)
	}
	// (b) credential family
	logins := []string{"", "guest", "admin", "ADMIN", "nosuch", "../admin", strings.Repeat("l", 72), "obs"}
	pws := []string{"secret", "", "wrong", "secretx", "secre", strings.Repeat("x", 72), strings.Repeat("x", 73), "gp", "op"}
	for db := range c04DBs {
		for _, l := range logins {
			for _, p := range pws {
				for _, banned := range []int{0, 1, 2} {
					if banned != 0 && db != 0 {
						continue
					}
					c := c04Case{DB: db, HS: valid, FirstTyp: ref.TLogin, Login: l, Pw: p, Banned: banned}
					cs = append(cs, c)
					if banned == 0 {
						c.Style15 = true
						cs = append(cs, c)
					}
				}
			}
			// the stored hash itself as password
			for _, a := range c04DBs[db] {
				if a.Login == l {
					cs = append(cs, c04Case{DB: db, HS: valid, FirstTyp: ref.TLogin, Login: l, RawPw: []byte(world.HashPw(a.Password))})
					// un-obfuscated password bytes
					cs = append(cs, c04Case{DB: db, HS: valid, FirstTyp: ref.TLogin, Login: l, RawPw: []byte(a.Password + " ")[:len(a.Password)]})
					// the password, a zero byte, the password again (bcrypt reads its key cyclically with a
					// terminating zero: P and P 00 P produce the same hash) - not the account's password
					if a.RawHash == nil && len(a.Password) < 30 {
						wire := ref.Obfuscate([]byte(a.Password))
						cs = append(cs, c04Case{DB: db, HS: valid, FirstTyp: ref.TLogin, Login: l, RawPw: append(append(append([]byte(nil), wire...), 0), wire...)})
						// ... and with the zero byte in front (for an empty password: 00, 00 00 00)
						cs = append(cs, c04Case{DB: db, HS: valid, FirstTyp: ref.TLogin, Login: l, RawPw: append([]byte{0}, wire...)},
							c04Case{DB: db, HS: valid, FirstTyp: ref.TLogin, Login: l, RawPw: append(append([]byte{0}, wire...), 0, 0)})
					}
				}
			}
		}
	}
	// (c) first-transaction family: any registered type as the first transaction
	for _, typ := range ref.AllRequestTypes {
		for db := 0; db < len(c04DBs); db++ {
			cs = append(cs, c04Case{DB: db, HS: valid, FirstTyp: typ, NoCreds: true})
			cs = append(cs, c04Case{DB: db, HS: valid, FirstTyp: typ, Login: "admin", Pw: "wrong"})
			cs = append(cs, c04Case{DB: db, HS: valid, FirstTyp: typ, Login: "admin", Pw: "secret"})
		}
	}
	// (d) appended family: failing credentials followed by requests
	fails := []c04Case{
		{DB: 0, HS: valid, FirstTyp: ref.TLogin, Login: "admin", Pw: "wrong"},
		{DB: 0, HS: valid, FirstTyp: ref.TLogin, Login: "nosuch", Pw: ""},
		{DB: 1, HS: valid, FirstTyp: ref.TLogin, Login: "", Pw: ""},
		{DB: 0, HS: valid, FirstTyp: ref.TLogin, Login: "admin", Pw: "secret", Banned: 1},
	}
	for _, f := range fails {
		for i := range c05Kinds {
			c := f
			c.Appended = []int{i}
			cs = append(cs, c)
			c.OneSeg = true
			cs = append(cs, c)
		}
		step := 7
		if thorough {
			step = 1
		}
		n := 0
		for i := range c05Kinds {
			for j := range c05Kinds {
				n++
				if n%step != 0 {
					continue
				}
				c := f
				c.Appended = []int{i, j}
				c.OneSeg = (i+j)%2 == 0
				cs = append(cs, c)
			}
		}
	}
	return cs
}

// c04Race: a refused and an accepted login in flight at the same time (E-SCHED): the refused peer
// must still receive nothing but its greeting and one error reply, the accepted one its login reply.
func c04Race(order int) func() explore.SchedOutcome {
	return func() (out explore.SchedOutcome) {
		vrt.BeginSetup()
		wd := world.New(world.Cfg{Accounts: c04DBs[0], Agreement: "the agreement"})
		defer wd.Close()
		obs, r1 := wd.Connect("10.0.0.3:1003", "obs", "op", "obs")
		if r1 == nil || r1.Err != 0 {
			out.Violations = append(out.Violations, explore.SchedV{Signature: "C04/race/setup", Detail: "observer login failed"})
			return
		}
		obs.New()
		var bad, good *world.Client
		mk := func(valid bool) *world.Client {
			c := wd.Dial(map[bool]string{true: "10.0.0.7:7777", false: "10.0.0.66:6666"}[valid])
			c.Handshake()
			if valid {
				c.Send(ref.Tx{Type: ref.TLogin, ID: 0x77, Fields: []ref.Fld{ref.F(ref.FUserLogin, ref.Obfuscate([]byte("admin"))), ref.F(ref.FUserPassword, ref.Obfuscate([]byte("secret"))), ref.FS(ref.FUserName, "good"), ref.F16(ref.FUserIconID, 1)}})
			} else {
				c.Send(ref.Tx{Type: ref.TLogin, ID: 0x51, Fields: []ref.Fld{ref.F(ref.FUserLogin, ref.Obfuscate([]byte("admin"))), ref.F(ref.FUserPassword, ref.Obfuscate([]byte("wrong"))), ref.FS(ref.FUserName, "bad"), ref.F16(ref.FUserIconID, 1)}})
			}
			return c
		}
		if order == 0 {
			bad, good = mk(false), mk(true)
		} else {
			good, bad = mk(true), mk(false)
		}
		vrt.EndSetup()
		vrt.WaitQuiet()
		bad.Poll()
		good.Poll()
		if bad.ParseErr != nil || len(bad.Unparsed()) != 0 || len(bad.Inbox) != 1 || !(bad.Inbox[0].IsReply == 1 && bad.Inbox[0].ID == 0x51 && bad.Inbox[0].Err != 0) {
			out.Violations = append(out.Violations, explore.SchedV{Signature: "C04/race/refused-peer-received-more-than-one-error-reply",
				Detail: fmt.Sprintf("the wrong-password peer received %v (parse error %v, %d stray bytes)", bad.Inbox, bad.ParseErr, len(bad.Unparsed()))})
		}
		okReply := false
		for _, t := range good.Inbox {
			if t.IsReply == 1 && t.ID == 0x77 && t.Err == 0 {
				okReply = true
			}
		}
		if !okReply {
			out.Violations = append(out.Violations, explore.SchedV{Signature: "C04/race/valid-login-not-answered", Detail: fmt.Sprintf("the valid peer received %v", good.Inbox)})
		}
		for _, pn := range vrt.S.Panics() {
			out.Violations = append(out.Violations, explore.SchedV{Signature: "C04/race/panic/" + vrt.PanicSite(pn), Detail: pn})
		}
		out.Canon = fmt.Sprintf("bad=%s good=%s obs=%s", ref.CanonMultiset(bad.Inbox), ref.CanonMultiset(good.Inbox), ref.CanonMultiset(obs.New()))
		return out
	}
}

// c04Interleaved: a peer sends the first k bytes of its (invalid) handshake, another peer connects and
// sends a valid one, then the first peer sends the remaining 12-k bytes - which are the tail of a valid
// handshake - and a guest login. Its handshake is still the invalid one it sent: it is not served.
func c04Interleaved(w *explore.Worker, only int) {
	for k := 1; k < 12; k++ {
		if only > 0 && k != only {
			continue
		}
		c := c04Case{DB: 0, Login: "guest", FirstTyp: ref.TLogin, Interleave: k}
		c.HS = append(bytes.Repeat([]byte{'X'}, k), ref.Handshake()[k:]...)
		w.Eval()
		seqChecked(w, "C04", "interleaved", c, func() {
			wd := world.New(world.Cfg{Board: "board-secret text\r", Accounts: c04DBs[0]})
			defer wd.Close()
			obs, r := wd.Connect("10.0.0.3:1003", "obs", "op", "obs")
			if r == nil || r.Err != 0 {
				w.Broken("C04 interleaved: observer login failed")
				return
			}
			before := len(wd.UserList(obs))
			obs.New()
			b := wd.Dial("10.0.0.66:6666")
			b.Conn.Feed(c.HS[:k])
			world.Settle(time.Second)
			a := wd.Dial("10.0.0.5:1005")
			a.Handshake()
			world.Settle(time.Second)
			b.Conn.Feed(c.HS[k:])
			id := b.Login123("", "", "intruder", 1)
			world.Settle(5 * time.Second)
			b.Poll()
			if r := b.Reply(id); r != nil && r.Err == 0 {
				w.Violation("C04/logged-in-without-valid-handshake", fmt.Sprintf("a peer whose 12 handshake bytes were %q (sent as %d + %d bytes, with another peer's valid handshake arriving in between) was logged in", c.HS, k, 12-k), k, c)
			}
			if bytes.Equal(b.Greeting, ref.HandshakeReply()) {
				w.Violation("C04/invalid-handshake-answered-as-valid", fmt.Sprintf("handshake bytes %q sent as %d + %d bytes around another peer's handshake: answered %x", c.HS, k, 12-k, b.Greeting), k, c)
			}
			if n := len(wd.UserList(obs)); n != before {
				w.Violation("C04/user-list-changed-by-unauthenticated-peer", fmt.Sprintf("%d users before, %d after", before, n), k, c)
			}
			_ = a
			w.Outcome(fmt.Sprintf("interleaved %d greeting=%x", k, b.Greeting))
		})
	}
}

func runC04(w *explore.Worker) {
	if w.Mine(2) {
		c04Interleaved(w, 0)
	}
	bound := 2
	if w.Thorough {
		bound = 3
	}
	for order := 0; order < 2; order++ {
		cfg := explore.SchedConfig{Harness: "C04race", Params: fmt.Sprint(order), Bound: bound, FreeCost: 1, MaxSteps: 20000, Suspend: true}
		explore.ExploreSchedules(w, cfg, c04Race(order))
	}
	explore.ExploreSchedules(w, explore.SchedConfig{Harness: "C04reload", Bound: bound, FreeCost: 1, MaxSteps: 20000, Suspend: true}, banReloadRace("C04"))
	w.Max("race_deviation_bound_completed", bound)
	cs := c04Cases(w.Thorough)
	for i, c := range cs {
		if !w.Next() {
			continue
		}
		if w.Expired() {
			w.Cap("time budget reached")
			return
		}
		w.Eval()
		c04Run(w, c)
		if i%499 == 0 {
			w.Sample(c)
		}
	}
	if w.Index == 0 {
		w.Count("cases", len(cs))
	}
}

func replayC04(w *explore.Worker, raw json.RawMessage) {
	var sr explore.SchedReplay
	if json.Unmarshal(raw, &sr) == nil && sr.Kind == "schedule" && sr.Harness == "C04reload" {
		_, out, err := explore.RunSchedule(sr.Choices, 20000, banReloadRace("C04"))
		if err != nil {
			w.Broken("replay: %v", err)
		}
		for _, v := range out.Violations {
			w.Violation(v.Signature, v.Detail, 0, sr)
		}
		return
	}
	if json.Unmarshal(raw, &sr) == nil && sr.Kind == "schedule" {
		order := 0
		fmt.Sscan(sr.Params, &order)
		_, out, err := explore.RunSchedule(sr.Choices, 20000, c04Race(order))
		if err != nil {
			w.Broken("replay: %v", err)
		}
		for _, v := range out.Violations {
			w.Violation(v.Signature, v.Detail, 0, sr)
		}
		return
	}
	var c c04Case
	if err := json.Unmarshal(raw, &c); err != nil {
		w.Broken("bad replay: %v", err)
		return
	}
	c04Run(w, c)
}
