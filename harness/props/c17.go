package props

import (
	"encoding/json"
	"fmt"
	"os"
	"path/filepath"
	"sort"
	"strings"
	"time"

	"github.com/jhalter/mobius/internal/mobius"
	"github.com/jhalter/mobius/verifh/explore"
	"github.com/jhalter/mobius/verifh/ref"
	"github.com/jhalter/mobius/verifh/vrt"
	"github.com/jhalter/mobius/verifh/world"
)

// C17: disconnects and bans are enforced at the door.

func init() {
	register(&Prop{
		ID:    "C17",
		Level: "model_checking",
		Rule: "E-SEQ: breadth-first search over ban histories (administrator disconnect with no/temporary/permanent ban, reconnect attempts from the banned address, the same host on another port and two look-alike addresses with right/wrong password, " +
			"server restart from the files, virtual clock advances of 1 s / 25 min / 31 min / 24 h) replayed on a fresh real server under a virtual clock; door behaviour compared with a reference ban model after every operation; " +
			"states deduplicated by ban table (remaining time), connected set and restart count; also peers that stay silent after the handshake, kicks while the ban file cannot be written, two users behind one address banned permanently and temporarily in either order; E-SCHED: two concurrent bans, ban-list reload against connections",
		Assumptions:    []string{"instants within 3 s of a ban's expiry are not probed", "4 peer addresses; one target user"},
		Run:            runC17,
		Replay:         replayC17,
		MinOutcomes:    10,
		QuickBudget:    150 * time.Second,
		ThoroughBudget: 25 * time.Minute,
	})
}

var c17Addrs = map[string]string{"A": "10.0.0.1:1001", "A2": "10.0.0.1:2002", "B": "10.0.0.11:1011", "C": "110.0.0.1:1110"}

type c17Ban struct {
	perm  bool
	until time.Time
}

type c17World struct {
	wd      *world.World
	adm     *world.Client
	tgt     *world.Client // the user currently connected from address A (nil if none)
	tgtID   uint16
	bans    map[string]c17Ban
	viol    []explore.SchedV
	nconn   int
	starts  int
	faulted bool          // the ban list could not be saved: nothing further is specified
	parked  *world.Client // a connection from the target's host that has done the handshake and nothing else
}

func (x *c17World) fail(clause, detail string) {
	x.viol = append(x.viol, explore.SchedV{Signature: "C17/" + clause, Detail: detail})
}

func ipOf(addr string) string { return strings.Split(addr, ":")[0] }

func (x *c17World) banned(ip string) (banned bool, nearEdge bool) {
	b, ok := x.bans[ip]
	if !ok {
		return false, false
	}
	if b.perm {
		return true, false
	}
	d := b.until.Sub(vrt.Now())
	if d > -3*time.Second && d < 3*time.Second {
		return false, true
	}
	return d > 0, false
}

func (x *c17World) connectAdmin() bool {
	var r *ref.Tx
	x.adm, r = x.wd.Connect("10.9.9.9:999", "admin", "adminpw", "adm")
	return r != nil && r.Err == 0
}

// door: a connection attempt from addr; returns what the peer experienced.
func (x *c17World) door(name, pw string) (c *world.Client, class string) {
	addr := c17Addrs[name]
	x.nconn++
	c = x.wd.Dial(addr)
	c.Handshake()
	var id uint32
	if pw != "<silent>" { // a silent peer completes the handshake and sends nothing further
		id = c.Login123("user", pw, "u"+name, 1)
	}
	world.Settle(5 * time.Second)
	c.Poll()
	r := c.Reply(id)
	var notices, others int
	for _, t := range c.Inbox {
		if t.IsReply == 0 && t.Type == ref.TServerMsg {
			notices++
		} else if t.IsReply == 0 {
			others++
		}
	}
	switch {
	case string(c.Greeting) != string(ref.HandshakeReply()):
		class = fmt.Sprintf("no-handshake-reply(%x)", c.Greeting)
	case r != nil && r.Err == 0:
		class = "served"
	case r != nil && r.Err != 0 && notices == 0:
		class = "login-refused"
	case r == nil && notices == 1 && others == 0 && c.Conn.Closed:
		class = "ban-notice-only"
	case pw == "<silent>" && r == nil && notices == 0 && others == 0 && !c.Conn.Closed:
		class = "waiting-for-login"
	default:
		class = fmt.Sprintf("other(reply=%v notices=%d others=%d closed=%v)", r, notices, others, c.Conn.Closed)
	}
	return c, class
}

func (x *c17World) apply(op string) bool {
	p := strings.Split(op, ":")
	if x.faulted {
		return false
	}
	switch p[0] {
	case "kick", "deafkick", "faultkick":
		if x.tgt == nil {
			return false
		}
		if p[0] == "faultkick" {
			// the ban list cannot be saved (its temporary file name is taken by a directory): whatever becomes
			// of the ban, the user is disconnected and the others are told. What the door does afterwards is
			// not specified for a server that could not record the ban: the history ends here.
			_ = os.MkdirAll(filepath.Join(x.wd.ConfigDir, "Banlist.yaml.tmp", "x"), 0755)
			x.faulted = true
		}
		if p[0] == "deafkick" {
			// the target stops reading and a broadcast to it is pending when the administrator disconnects it
			x.tgt.Conn.Stalled = true
			x.adm.Req(ref.TUserBroadcast, ref.FS(ref.FData, strings.Repeat("b", 40000)))
			world.Settle(2 * time.Second)
		}
		x.adm.New()
		fs := []ref.Fld{ref.F16(ref.FUserID, x.tgtID)}
		switch p[1] {
		case "temp":
			fs = append(fs, ref.F16(ref.FOptions, 1))
		case "perm":
			fs = append(fs, ref.F16(ref.FOptions, 2))
		case "temp4": // the same numbers sent as 4-byte integers, as some clients send every integer field
			fs = append(fs, ref.F32(ref.FOptions, 1))
			p[1] = "temp"
		case "perm4":
			fs = append(fs, ref.F32(ref.FOptions, 2))
			p[1] = "perm"
		}
		at := vrt.Now()
		id := x.adm.Req(ref.TDisconnectUser, fs...)
		world.Settle(5 * time.Second)
		r := x.adm.Reply(id)
		if (r == nil || r.Err != 0) && p[0] != "faultkick" {
			x.fail("disconnect/request-refused", fmt.Sprint(r))
		}
		if !x.tgt.Conn.Closed {
			x.fail("disconnect/connection-not-closed", "the disconnected user's connection is still open after 5 s")
		}
		left := 0
		for _, t := range x.adm.New() {
			if t.Type == ref.TNotifyDeleteUser {
				if d, _ := t.Get(ref.FUserID); len(d) == 2 && uint16(d[0])<<8|uint16(d[1]) == x.tgtID {
					left++
				}
			}
		}
		if left == 0 {
			x.fail("disconnect/others-not-told-the-user-left", "no user-left notification for the disconnected user reached the other connected user")
		}
		switch p[1] {
		case "temp":
			if x.faulted {
				break
			}
			x.bans["10.0.0.1"] = c17Ban{until: at.Add(30 * time.Minute)}
		case "perm":
			if x.faulted {
				break
			}
			x.bans["10.0.0.1"] = c17Ban{perm: true}
		}
		x.tgt = nil
	case "conn":
		name, pw := p[1], map[string]string{"right": "userpw", "wrong": "nope", "silent": "<silent>"}[p[2]]
		if name == "A" && x.tgt != nil {
			return false
		}
		b, edge := x.banned(ipOf(c17Addrs[name]))
		if edge {
			return false
		}
		c, class := x.door(name, pw)
		want := "served"
		if b {
			want = "ban-notice-only"
		} else if p[2] == "wrong" {
			want = "login-refused"
		} else if p[2] == "silent" {
			want = "waiting-for-login"
		}
		if class != want {
			clause := "door/unbanned-address-not-served"
			if b {
				clause = "door/banned-address-not-refused-after-handshake"
			} else if class == "served" && p[2] == "wrong" {
				clause = "door/wrong-password-served"
			}
			x.fail(clause, fmt.Sprintf("connection from %s (%s password) at %s: %s, reference %s; bans %s", c17Addrs[name], p[2], vrt.Now().Sub(vrt.Epoch), class, want, x.banString()))
		}
		if class == "waiting-for-login" {
			c.Hangup()
			world.Quiet()
		}
		if class == "served" {
			if name == "A" {
				x.tgt = c
				x.tgtID = 0
				for _, u := range x.wd.UserList(x.adm) {
					if u.Name == "uA" {
						x.tgtID = u.ID
					}
				}
			} else {
				c.Hangup()
				world.Quiet()
			}
		}
	case "park":
		// a peer from the target's host completes the handshake and holds its login back
		if x.parked != nil {
			return false
		}
		if b, edge := x.banned("10.0.0.1"); b || edge {
			return false
		}
		x.nconn++
		x.parked = x.wd.Dial("10.0.0.1:3003")
		x.parked.Handshake()
		world.Settle(2 * time.Second)
	case "unpark":
		// ... and sends the login now: a login from a banned address is not processed
		if x.parked == nil {
			return false
		}
		b, edge := x.banned("10.0.0.1")
		if edge {
			return false
		}
		c := x.parked
		x.parked = nil
		id := c.Login123("user", "userpw", "uP", 1)
		world.Settle(5 * time.Second)
		c.Poll()
		r := c.Reply(id)
		served := r != nil && r.Err == 0
		if b && served {
			x.fail("door/login-from-banned-address-processed", fmt.Sprintf("a connection from 10.0.0.1 that had completed its handshake before the ban sent its login while the ban (%s) was in force and was logged in", x.banString()))
		}
		if !b && !served {
			x.fail("door/unbanned-address-not-served", fmt.Sprintf("parked connection: reply %v", r))
		}
		c.Hangup()
		world.Quiet()
	case "restart":
		x.parked = nil
		x.wd.Start()
		x.starts++
		x.tgt = nil
		if !x.connectAdmin() {
			x.fail("restart/admin-cannot-log-in", "")
		}
		// the ban file as a fresh instance sees it
		raw, _ := os.ReadFile(filepath.Join(x.wd.ConfigDir, "Banlist.yaml"))
		for ip, b := range x.bans {
			if !strings.Contains(string(raw), ip) {
				x.fail("restart/ban-not-persisted", fmt.Sprintf("ban of %s (%+v) is not in Banlist.yaml: %q", ip, b, raw))
			}
		}
	case "tick":
		d, _ := time.ParseDuration(p[1])
		vrt.Advance(d)
		world.Settle(0)
	default:
		panic(op)
	}
	return true
}

func (x *c17World) banString() string {
	var s []string
	for ip, b := range x.bans {
		if b.perm {
			s = append(s, ip+"=perm")
		} else {
			s = append(s, fmt.Sprintf("%s=%s", ip, b.until.Sub(vrt.Now()).Round(time.Second)))
		}
	}
	sort.Strings(s)
	return strings.Join(s, ",")
}

func (x *c17World) canon() string {
	var s []string
	for ip, b := range x.bans {
		if b.perm {
			s = append(s, ip+"=perm")
		} else {
			d := b.until.Sub(vrt.Now())
			cl := "expired"
			if d > 0 {
				cl = fmt.Sprintf("active-%dm", int(d.Minutes()))
			}
			s = append(s, ip+"="+cl)
		}
	}
	sort.Strings(s)
	// the implementation's own view is part of the state: if it diverges from the model the state is a
	// different one and must be expanded, not merged
	var impl []string
	for _, ip := range []string{"10.0.0.1", "10.0.0.11", "110.0.0.1"} {
		b, until := x.wd.Srv.BanList.IsBanned(ip)
		st := fmt.Sprint(b)
		if until != nil {
			d := until.Sub(vrt.Now())
			if d > 0 {
				st += fmt.Sprintf("/active-%dm", int(d.Minutes()))
			} else {
				st += "/expired"
			}
		}
		impl = append(impl, ip+"="+st)
	}
	raw, _ := os.ReadFile(filepath.Join(x.wd.ConfigDir, "Banlist.yaml"))
	return fmt.Sprintf("bans[%s] impl[%s] file=%x target=%v restarted=%v faulted=%v parked=%v", strings.Join(s, ","), strings.Join(impl, ","), explore.Hash(string(raw))&0xffff*0+uint64(len(strings.Split(string(raw), "\n"))), x.tgt != nil, x.starts > 0, x.faulted, x.parked != nil)
}

func c17Exec(hist []string) (res explore.SeqResult) {
	s := seq(func() {
		wd := world.New(world.Cfg{Accounts: []world.Acct{
			{Login: "guest", Name: "Guest"},
			{Login: "admin", Name: "Admin", Password: "adminpw", Access: world.AllAccess},
			{Login: "user", Name: "User", Password: "userpw", Access: world.Bits(ref.PReadChat, ref.PAnyName)},
		}})
		defer wd.Close()
		x := &c17World{wd: wd, bans: map[string]c17Ban{}}
		if !x.connectAdmin() {
			res.Violations = append(res.Violations, explore.SchedV{Signature: "C17/setup", Detail: "admin login failed"})
			return
		}
		if len(hist) == 1 && strings.HasPrefix(hist[0], "sameaddr:") {
			x.sameAddress(strings.Split(hist[0], ":")[1], strings.Split(hist[0], ":")[2])
			res.Canon = hist[0]
			res.Violations = x.viol
			return
		}
		// initial state: the target user is connected from address A
		x.apply("conn:A:right")
		for _, op := range hist {
			if !x.apply(op) {
				res.Skip = true
				return
			}
		}
		res.Canon = x.canon()
		res.Violations = x.viol
	})
	for _, p := range s.Panics() {
		res.Violations = append(res.Violations, explore.SchedV{Signature: "C17/panic/" + vrt.PanicSite(p), Detail: p})
	}
	return res
}

// sameAddress: two users are connected from one address; an administrator disconnects both, one with a
// permanent and one with a temporary ban (in either order). The address stays refused indefinitely:
// after the 30 minutes of the temporary ban and after a restart.
func (x *c17World) sameAddress(first, second string) {
	var cl [2]*world.Client
	var ids [2]uint16
	for i, name := range []string{"A", "A2"} {
		c, class := x.door(name, "userpw")
		if class != "served" {
			x.fail("door/unbanned-address-not-served", fmt.Sprintf("%s: %s", name, class))
			return
		}
		cl[i] = c
		for _, u := range x.wd.UserList(x.adm) {
			if u.Name == "u"+name {
				ids[i] = u.ID
			}
		}
	}
	for i, kind := range []string{first, second} {
		opt := map[string]uint16{"temp": 1, "perm": 2}[kind]
		id := x.adm.Req(ref.TDisconnectUser, ref.F16(ref.FUserID, ids[i]), ref.F16(ref.FOptions, opt))
		world.Settle(5 * time.Second)
		if r := x.adm.Reply(id); r == nil || r.Err != 0 {
			x.fail("disconnect/request-refused", fmt.Sprint(r))
		}
		if !cl[i].Conn.Closed {
			x.fail("disconnect/connection-not-closed", fmt.Sprintf("user %d from the shared address", i+1))
		}
	}
	check := func(when string) {
		if _, class := x.door("A", "userpw"); class != "ban-notice-only" {
			x.fail("door/permanently-banned-address-admitted-after-a-later-temporary-ban", fmt.Sprintf("two users from 10.0.0.1 were disconnected with a %s and then a %s ban; %s a connection from that address is %s", first, second, when, class))
		}
	}
	check("right afterwards")
	vrt.Advance(31 * time.Minute)
	world.Settle(0)
	check("31 minutes later")
	x.wd.Start()
	if !x.connectAdmin() {
		x.fail("restart/admin-cannot-log-in", "")
		return
	}
	check("after a restart")
}

func c17Alphabet() []string {
	return []string{"kick:none", "kick:temp", "kick:perm", "deafkick:none", "deafkick:temp", "faultkick:temp", "faultkick:perm", "conn:A:silent", "conn:B:silent", "kick:temp4", "kick:perm4", "park", "unpark", "conn:A:right", "conn:A:wrong", "conn:A2:right", "conn:A2:wrong", "conn:B:right", "conn:C:right", "conn:B:wrong",
		"restart", "tick:1s", "tick:25m", "tick:31m", "tick:24h"}
}

// c17Concurrent: two administrators ban two different users at the same moment (E-SCHED); both bans
// must be in force and both must survive a restart, whatever the interleaving.
func c17Concurrent() (out explore.SchedOutcome) {
	vrt.BeginSetup()
	wd := world.New(world.Cfg{Accounts: []world.Acct{
		{Login: "guest", Name: "Guest"},
		{Login: "admin", Name: "Admin", Password: "adminpw", Access: world.AllAccess},
		{Login: "user", Name: "User", Password: "userpw", Access: world.Bits(ref.PReadChat, ref.PAnyName)},
	}})
	defer wd.Close()
	a1, r1 := wd.Connect("10.9.9.1:991", "admin", "adminpw", "adm1")
	a2, r2 := wd.Connect("10.9.9.2:992", "admin", "adminpw", "adm2")
	_, r3 := wd.Connect("10.0.0.1:1001", "user", "userpw", "uA")
	_, r4 := wd.Connect("10.0.0.11:1011", "user", "userpw", "uB")
	if r1 == nil || r2 == nil || r3 == nil || r4 == nil {
		out.Violations = append(out.Violations, explore.SchedV{Signature: "C17/concurrent/setup", Detail: "logins failed"})
		return
	}
	ids := map[string]uint16{}
	for _, u := range wd.UserList(a1) {
		ids[u.Name] = u.ID
	}
	a1.Send(ref.Tx{Type: ref.TDisconnectUser, Fields: []ref.Fld{ref.F16(ref.FUserID, ids["uA"]), ref.F16(ref.FOptions, 2)}})
	a2.Send(ref.Tx{Type: ref.TDisconnectUser, Fields: []ref.Fld{ref.F16(ref.FUserID, ids["uB"]), ref.F16(ref.FOptions, 1)}})
	vrt.EndSetup()
	vrt.WaitQuiet()
	var obs []string
	for _, ip := range []string{"10.0.0.1", "10.0.0.11"} {
		if b, _ := wd.Srv.BanList.IsBanned(ip); !b {
			out.Violations = append(out.Violations, explore.SchedV{Signature: "C17/concurrent/ban-not-in-force", Detail: ip})
		}
	}
	raw, _ := os.ReadFile(filepath.Join(wd.ConfigDir, "Banlist.yaml"))
	// restart: a fresh instance must load the file and know both bans
	wd.Start()
	for _, ip := range []string{"10.0.0.1", "10.0.0.11"} {
		b, _ := wd.Srv.BanList.IsBanned(ip)
		obs = append(obs, fmt.Sprintf("%s=%v", ip, b))
		if !b {
			out.Violations = append(out.Violations, explore.SchedV{Signature: "C17/concurrent/acknowledged-ban-lost-after-restart",
				Detail: fmt.Sprintf("ban of %s is not known to a server restarted from the files; Banlist.yaml: %q", ip, raw)})
		}
	}
	for _, p := range vrt.S.Panics() {
		out.Violations = append(out.Violations, explore.SchedV{Signature: "C17/concurrent/panic/" + vrt.PanicSite(p), Detail: p})
	}
	out.Canon = strings.Join(obs, ",")
	return out
}

// banReloadRace: an operator reloads the ban list (SIGHUP / API) while a banned address connects
// (E-SCHED): the peer must still get nothing but the ban notice.
func banReloadRace(prop string) func() explore.SchedOutcome {
	return func() (out explore.SchedOutcome) {
		vrt.BeginSetup()
		wd := world.New(world.Cfg{BanYAML: "10.0.0.1: null\n10.0.0.7: 2024-03-05T10:25:00Z\n", Accounts: []world.Acct{
			{Login: "guest", Name: "Guest"},
			{Login: "user", Name: "User", Password: "userpw", Access: world.Bits(ref.PReadChat, ref.PAnyName)},
		}})
		defer wd.Close()
		bf, ok := wd.Srv.BanList.(*mobius.BanFile)
		if !ok {
			out.Violations = append(out.Violations, explore.SchedV{Signature: prop + "/reload-race/setup", Detail: "ban list is not a BanFile"})
			return
		}
		c1 := wd.Dial("10.0.0.1:1001")
		c1.Handshake()
		id1 := c1.Login123("user", "userpw", "u1", 1)
		c2 := wd.Dial("10.0.0.7:1007")
		c2.Handshake()
		id2 := c2.Login123("user", "userpw", "u2", 1)
		vrt.GoNamed("reload", func() { _ = bf.Load() })
		vrt.EndSetup()
		vrt.Settle(5 * time.Second)
		for i, c := range []*world.Client{c1, c2} {
			c.Poll()
			id := []uint32{id1, id2}[i]
			notices := 0
			for _, t := range c.Inbox {
				if t.IsReply == 0 && t.Type == ref.TServerMsg {
					notices++
				}
			}
			if r := c.Reply(id); r != nil || notices != 1 || len(c.Inbox) != 1 {
				out.Violations = append(out.Violations, explore.SchedV{Signature: prop + "/reload-race/banned-address-served-during-ban-list-reload",
					Detail: fmt.Sprintf("connection from banned %s while the ban list was being reloaded received %v", c.Addr, c.Inbox)})
			}
		}
		for _, p := range vrt.S.Panics() {
			out.Violations = append(out.Violations, explore.SchedV{Signature: prop + "/reload-race/panic/" + vrt.PanicSite(p), Detail: p})
		}
		out.Canon = fmt.Sprintf("%d/%d", len(c1.Inbox), len(c2.Inbox))
		return out
	}
}

func runC17(w *explore.Worker) {
	explore.ExploreSchedules(w, explore.SchedConfig{Harness: "C17reload", Bound: 2, FreeCost: 1, MaxSteps: 20000, Suspend: true}, banReloadRace("C17"))
	bound := 2
	if w.Thorough {
		bound = 3
	}
	explore.ExploreSchedules(w, explore.SchedConfig{Harness: "C17concurrent", Bound: bound, FreeCost: 1, MaxSteps: 20000, Suspend: true}, c17Concurrent)
	if w.Mine(1) {
		for _, h := range []string{"sameaddr:perm:temp", "sameaddr:temp:perm"} {
			w.Eval()
			res := c17Exec([]string{h})
			for _, v := range res.Violations {
				w.Violation(v.Signature, v.Detail+"\nhistory: "+h, 1, explore.SeqReplay{Kind: "history", Harness: "C17bans", History: []string{h}})
			}
			w.Outcome(h)
		}
	}
	depth := 5
	if w.Thorough {
		depth = 6
	}
	explore.ExploreHistories(w, explore.SeqConfig{Name: "C17bans", Alphabet: c17Alphabet(), Depth: depth, Exec: c17Exec})
}

func replayC17(w *explore.Worker, raw json.RawMessage) {
	var sr explore.SchedReplay
	if json.Unmarshal(raw, &sr) == nil && sr.Kind == "schedule" {
		body := c17Concurrent
		if sr.Harness == "C17reload" {
			body = banReloadRace("C17")
		}
		_, out, err := explore.RunSchedule(sr.Choices, 20000, body)
		if err != nil {
			w.Broken("replay: %v", err)
		}
		for _, v := range out.Violations {
			w.Violation(v.Signature, v.Detail, 0, sr)
		}
		return
	}
	var r explore.SeqReplay
	if err := json.Unmarshal(raw, &r); err != nil {
		w.Broken("bad replay: %v", err)
		return
	}
	res := c17Exec(r.History)
	for _, v := range res.Violations {
		w.Violation(v.Signature, v.Detail, 0, r)
	}
}
