package props

import (
	"encoding/json"
	"fmt"
	"os"
	"path/filepath"
	"strings"
	"time"

	"gopkg.in/yaml.v3"

	"github.com/jhalter/mobius/hotline"
	"github.com/jhalter/mobius/internal/mobius"
	"github.com/jhalter/mobius/verifh/explore"
	"github.com/jhalter/mobius/verifh/ref"
	"github.com/jhalter/mobius/verifh/world"
)

// C06: no privilege amplification; protected users cannot be kicked.

func init() {
	register(&Prop{
		ID:    "C06",
		Level: "exploration",
		Rule: "bounded-exhaustive input enumeration on the real connection loop: (creator bitmap, requested bitmap) over {create-user bit + single bit i} x {single bit j} for all 64x64 plus empty/all/all-but-one on either side, " +
			"through both creation requests; disconnect requests with every ban option against target bitmaps {empty, all, singles, all-but-one}; distinct = distinct (case, observation) pairs",
		Assumptions: []string{"bitmaps with more than two interesting bits are represented by all / all-but-one only"},
		Run:            runC06,
		Replay:         replayC06,
		MinOutcomes:    10,
		QuickBudget:    100 * time.Second,
		ThoroughBudget: 20 * time.Minute,
	})
}

type c06Case struct {
	Kind      string  `json:"kind"` // create | discon
	Path      string  `json:"path,omitempty"`
	Creator   [8]byte `json:"creator"`
	Requested [8]byte `json:"requested"`
	Target    [8]byte `json:"target"`
	Option    []byte  `json:"option"` // nil = field absent
}

// subfield block of the batched update-user request: count + fields
func subFields(fs ...ref.Fld) []byte { return ref.EncodeFields(fs) }

func c06Create(w *explore.Worker, c c06Case) {
	fail := func(clause, detail string) {
		w.Violation("C06/create/"+c.Path+"/"+clause, fmt.Sprintf("creator %v requested %v: %s", bitList(c.Creator), bitList(c.Requested), detail), len(bitList(c.Requested)), c)
	}
	seqChecked(w, "C06", "create", c, func() {
		wd := world.New(world.Cfg{Accounts: []world.Acct{
			{Login: "guest", Name: "Guest"},
			{Login: "creator", Name: "Creator", Password: "pw", Access: c.Creator},
		}})
		defer wd.Close()
		cl, rep := wd.Connect("10.0.0.1:1001", "creator", "pw", "cr")
		if rep == nil || rep.Err != 0 {
			w.Broken("C06: creator login failed: %v", rep)
			return
		}
		var id uint32
		if c.Path == "newuser" {
			id = cl.Req(ref.TNewUser, ref.F(ref.FUserLogin, ref.Obfuscate([]byte("nu"))), ref.FS(ref.FUserName, "New"),
				ref.F(ref.FUserPassword, ref.Obfuscate([]byte("secret"))), ref.F(ref.FUserAccess, c.Requested[:]))
		} else {
			id = cl.Req(ref.TUpdateUser, ref.F(ref.FData, subFields(
				ref.F(ref.FUserLogin, ref.Obfuscate([]byte("nu"))), ref.FS(ref.FUserName, "New"),
				ref.F(ref.FUserPassword, ref.Obfuscate([]byte("secret"))), ref.F(ref.FUserAccess, c.Requested[:]))))
		}
		world.Quiet()
		r := cl.Reply(id)
		// three views of the account afterwards
		inMem := wd.Srv.AccountManager.Get("nu")
		raw, ferr := os.ReadFile(filepath.Join(wd.UsersDir, "nu.yaml"))
		var fresh *hotline.Account
		if m2, err := mobius.NewYAMLAccountManager(wd.UsersDir); err == nil {
			fresh = m2.Get("nu")
		}
		exists := inMem != nil || ferr == nil || fresh != nil
		subset := ref.Subset(c.Requested, c.Creator)
		canCreate := ref.BitSet(c.Creator, ref.PCreateUser)
		obs := fmt.Sprintf("exists=%v err=%v", exists, r != nil && r.Err != 0)
		check := func(view string, a [8]byte) {
			if !ref.Subset(a, c.Creator) {
				fail("created-account-exceeds-creator/"+view, fmt.Sprintf("account holds %v, creator holds %v", bitList(a), bitList(c.Creator)))
			}
		}
		if inMem != nil {
			check("memory", [8]byte(inMem.Access))
		}
		if fresh != nil {
			check("reloaded", [8]byte(fresh.Access))
		}
		if ferr == nil {
			// independent parse of the file: keys that are true must be names of bits the creator holds
			var doc map[string]interface{}
			if yaml.Unmarshal(raw, &doc) == nil {
				if acc, ok := doc["Access"].(map[string]interface{}); ok {
					for _, p := range ref.Privs {
						if t, _ := acc[p.Key].(bool); t && !ref.BitSet(c.Creator, p.Bit) {
							fail("created-account-exceeds-creator/file", fmt.Sprintf("file grants %s (bit %d) which the creator lacks", p.Key, p.Bit))
						}
					}
				}
			}
		}
		if exists && !subset {
			fail("creation-not-refused", "an account exists although the requested bitmap is not a subset of the creator's")
		}
		if canCreate && subset && (!exists || r == nil || r.Err != 0) {
			fail("legitimate-creation-refused", fmt.Sprintf("creator may create accounts and requested ⊆ creator, but exists=%v reply=%v", exists, r))
		}
		if !exists && (r == nil || r.Err == 0) && !(canCreate && subset) {
			fail("refusal-without-error-reply", fmt.Sprintf("reply=%v", r))
		}
		// distinct = distinct (path, creator may create, requested ⊆ creator, #requested bits class, observation)
		w.Outcome(fmt.Sprintf("create %s %v %v %d %s", c.Path, canCreate, subset, min(len(bitList(c.Requested)), 2), obs))
	})
}

func c06Discon(w *explore.Worker, c c06Case) {
	fail := func(clause, detail string) {
		w.Violation("C06/discon/"+clause, fmt.Sprintf("target %v option %x: %s", bitList(c.Target), c.Option, detail), len(bitList(c.Target)), c)
	}
	seqChecked(w, "C06", "discon", c, func() {
		wd := world.New(world.Cfg{Accounts: []world.Acct{
			{Login: "guest", Name: "Guest", Access: world.Bits(ref.PReadChat)},
			{Login: "admin", Name: "Admin", Password: "pw", Access: world.Bits(ref.PDisconUser)},
			{Login: "target", Name: "Target", Password: "tp", Access: c.Target},
		}})
		defer wd.Close()
		adm, r1 := wd.Connect("10.0.0.1:1001", "admin", "pw", "adm")
		tgt, r2 := wd.Connect("10.0.0.9:1009", "target", "tp", "tgt")
		obs, r3 := wd.Connect("10.0.0.3:1003", "guest", "", "obs")
		if r1 == nil || r2 == nil || r3 == nil || r1.Err != 0 || r2.Err != 0 {
			w.Broken("C06 discon: logins failed")
			return
		}
		var tid uint16
		for _, u := range wd.UserList(obs) {
			if u.Name == "tgt" || u.Name == "Target" {
				tid = u.ID
			}
		}
		if tid == 0 {
			w.Broken("C06 discon: target not in user list")
			return
		}
		obs.New()
		tgt.New()
		fields := []ref.Fld{ref.F16(ref.FUserID, tid)}
		if c.Option != nil {
			fields = append(fields, ref.F(ref.FOptions, c.Option))
		}
		id := adm.Req(ref.TDisconnectUser, fields...)
		world.Settle(10 * time.Second)
		rep := adm.Reply(id)
		protected := ref.BitSet(c.Target, ref.PCannotBeDiscon)
		left := false
		for _, t := range obs.New() {
			if t.Type == ref.TNotifyDeleteUser {
				if d, _ := t.Get(ref.FUserID); len(d) == 2 && uint16(d[0])<<8|uint16(d[1]) == tid {
					left = true
				}
			}
		}
		banFile, _ := os.ReadFile(filepath.Join(wd.ConfigDir, "Banlist.yaml"))
		bannedOnDisk := strings.Contains(string(banFile), "10.0.0.9")
		bannedMem, _ := wd.Srv.BanList.IsBanned("10.0.0.9")
		// the door: does a new connection from the target's address still get served?
		again, rr := wd.Connect("10.0.0.9:2009", "target", "tp", "tgt2")
		served := rr != nil && rr.Err == 0
		_ = again
		if protected {
			if tgt.Conn.Closed {
				fail("protected-user-disconnected", "the connection of a cannot-be-disconnected user was closed")
			}
			if left {
				fail("protected-user-announced-as-left", "others were told the protected user left")
			}
			if bannedOnDisk || bannedMem || !served {
				fail("protected-user-banned", fmt.Sprintf("disk=%v memory=%v served-again=%v", bannedOnDisk, bannedMem, served))
			}
			if rep == nil || rep.Err == 0 {
				fail("protected-user-request-not-refused", fmt.Sprint(rep))
			}
		}
		w.Outcome(fmt.Sprintf("discon %v %x closed=%v left=%v ban=%v/%v served=%v rep=%v", protected, c.Option, tgt.Conn.Closed, left, bannedOnDisk, bannedMem, served, rep != nil && rep.Err == 0))
	})
}

func c06Cases(thorough bool) []c06Case {
	var cs []c06Case
	cu := ref.PCreateUser
	var creators, requested [][8]byte
	creators = append(creators, setBits(cu), world.AllAccess, allBut(cu), [8]byte{})
	requested = append(requested, [8]byte{}, world.AllAccess)
	for i := 0; i < 64; i++ {
		creators = append(creators, setBits(cu, i))
		requested = append(requested, setBits(i))
		if i != cu {
			creators = append(creators, allBut(i))
		}
		requested = append(requested, allBut(i))
	}
	for _, path := range []string{"newuser", "updateuser"} {
		for _, cr := range creators {
			for _, rq := range requested {
				// quick tier: skip (all-but-i creator) x (all-but-j requested) for i != j != neighbours — covered by thorough
				if !thorough {
					ci, rj := bitList(cr), bitList(rq)
					if len(ci) == 63 && len(rj) == 63 {
						mi, mj := missing(cr), missing(rq)
						if mi != mj && (mi+1)%64 != mj {
							continue
						}
					}
				}
				cs = append(cs, c06Case{Kind: "create", Path: path, Creator: cr, Requested: rq})
			}
		}
	}
	var targets [][8]byte
	targets = append(targets, [8]byte{}, world.AllAccess)
	for i := 0; i < 64; i++ {
		targets = append(targets, setBits(i), allBut(i))
	}
	options := [][]byte{nil, {0, 0}, {0, 1}, {0, 2}, {0, 3}, {1}, {2}, {0, 0, 0, 1}, {0, 0, 0, 2}, {}}
	for _, t := range targets {
		for _, o := range options {
			if !thorough && !ref.BitSet(t, ref.PCannotBeDiscon) && len(bitList(t)) > 1 && len(bitList(t)) < 63 {
				continue
			}
			cs = append(cs, c06Case{Kind: "discon", Target: t, Option: o})
		}
	}
	for _, o := range options {
		for _, t := range [][8]byte{{}, world.Bits(ref.PReadChat), allBut(ref.PCannotBeDiscon)} {
			cs = append(cs, c06Case{Kind: "livegrant", Target: t, Option: o}, c06Case{Kind: "livegrant", Path: "updateuser", Target: t, Option: o}, c06Case{Kind: "livegrant", Path: "rename", Target: t, Option: o})
		}
	}
	return cs
}

func missing(b [8]byte) int {
	for i := 0; i < 64; i++ {
		if !ref.BitSet(b, i) {
			return i
		}
	}
	return -1
}

// c06LiveGrant: the cannot-be-disconnected privilege is granted to an account while two sessions of
// it are connected; afterwards neither session can be disconnected or banned, whatever the option.
func c06LiveGrant(w *explore.Worker, c c06Case) {
	fail := func(clause, detail string) {
		w.Violation("C06/discon-live-grant/"+clause, fmt.Sprintf("option %x granted with %q: %s", c.Option, c.Path, detail), 1, c)
	}
	seqChecked(w, "C06", "livegrant", c, func() {
		wd := world.New(world.Cfg{Accounts: []world.Acct{
			{Login: "guest", Name: "Guest", Access: world.Bits(ref.PReadChat)},
			{Login: "admin", Name: "Admin", Password: "pw", Access: world.Without(world.AllAccess, ref.PCannotBeDiscon)},
			{Login: "target", Name: "Target", Password: "tp", Access: c.Target},
		}})
		defer wd.Close()
		adm, r1 := wd.Connect("10.0.0.1:1001", "admin", "pw", "adm")
		t1, r2 := wd.Connect("10.0.0.8:1008", "target", "tp", "Target")
		t2, r3 := wd.Connect("10.0.0.9:1009", "target", "tp", "Target")
		if r1 == nil || r2 == nil || r3 == nil || r1.Err != 0 || r2.Err != 0 || r3.Err != 0 {
			w.Broken("C06 livegrant: logins failed")
			return
		}
		var tids []uint16
		for _, u := range wd.UserList(adm) {
			if u.Name == "Target" {
				tids = append(tids, u.ID)
			}
		}
		if len(tids) != 2 {
			w.Broken("C06 livegrant: expected two target sessions, list %v", wd.UserList(adm))
			return
		}
		prot := c.Target
		prot[ref.PCannotBeDiscon/8] |= 0x80 >> uint(ref.PCannotBeDiscon%8)
		var sid uint32
		switch c.Path { // which editor grants the protection
		case "updateuser":
			sid = adm.Req(ref.TUpdateUser, ref.F(ref.FData, subFields(ref.F(ref.FUserLogin, obf("target")), ref.FS(ref.FUserName, "Target"), ref.F(ref.FUserPassword, []byte{0}), ref.F(ref.FUserAccess, prot[:]))))
		case "rename": // renamed and protected in one entry of the multi-account editor
			sid = adm.Req(ref.TUpdateUser, ref.F(ref.FData, subFields(ref.F(ref.FData, obf("target")), ref.F(ref.FUserLogin, obf("target2")), ref.FS(ref.FUserName, "Target"), ref.F(ref.FUserPassword, []byte{0}), ref.F(ref.FUserAccess, prot[:]))))
		default:
			sid = adm.Req(ref.TSetUser, ref.F(ref.FUserLogin, obf("target")), ref.FS(ref.FUserName, "Target"), ref.F(ref.FUserPassword, []byte{0}), ref.F(ref.FUserAccess, prot[:]))
		}
		world.Quiet()
		if r := adm.Reply(sid); r == nil || r.Err != 0 {
			fail("set-user-refused", fmt.Sprint(r))
			return
		}
		for i, tid := range tids {
			fields := []ref.Fld{ref.F16(ref.FUserID, tid)}
			if c.Option != nil {
				fields = append(fields, ref.F(ref.FOptions, c.Option))
			}
			id := adm.Req(ref.TDisconnectUser, fields...)
			world.Settle(10 * time.Second)
			rep := adm.Reply(id)
			if rep == nil || rep.Err == 0 {
				fail("protected-session-request-not-refused", fmt.Sprintf("session %d (id %d): %v", i+1, tid, rep))
			}
		}
		if t1.Conn.Closed || t2.Conn.Closed {
			fail("protected-session-disconnected", fmt.Sprintf("closed: %v %v", t1.Conn.Closed, t2.Conn.Closed))
		}
		for _, ip := range []string{"10.0.0.8", "10.0.0.9"} {
			if b, _ := wd.Srv.BanList.IsBanned(ip); b {
				fail("protected-session-banned", ip)
			}
		}
		w.Outcome(fmt.Sprintf("livegrant %s %x closed=%v/%v", c.Path, c.Option, t1.Conn.Closed, t2.Conn.Closed))
	})
}

func c06Run(w *explore.Worker, c c06Case) {
	if c.Kind == "livegrant" {
		c06LiveGrant(w, c)
		return
	}
	if c.Kind == "create" {
		c06Create(w, c)
	} else {
		c06Discon(w, c)
	}
}

func runC06(w *explore.Worker) {
	cs := c06Cases(w.Thorough)
	for i, c := range cs {
		if !w.Next() {
			continue
		}
		if w.Expired() {
			w.Cap("time budget reached")
			return
		}
		w.Eval()
		c06Run(w, c)
		if i%997 == 0 {
			w.Sample(c)
		}
	}
	if w.Index == 0 {
		w.Count("cases", len(cs))
	}
}

func replayC06(w *explore.Worker, raw json.RawMessage) {
	var c c06Case
	if err := json.Unmarshal(raw, &c); err != nil {
		w.Broken("bad replay: %v", err)
		return
	}
	c06Run(w, c)
}
