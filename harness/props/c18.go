package props

import (
	"encoding/binary"
	"encoding/json"
	"fmt"
	"os"
	"path/filepath"
	"sort"
	"strconv"
	"strings"
	"time"

	"github.com/jhalter/mobius/internal/mobius"
	"github.com/jhalter/mobius/verifh/explore"
	"github.com/jhalter/mobius/verifh/ref"
	"github.com/jhalter/mobius/verifh/vrt"
	"github.com/jhalter/mobius/verifh/world"
)

// C18: threaded news keeps every article and threads new ones correctly.

func init() {
	register(&Prop{
		ID:    "C18",
		Level: "model_checking",
		Rule: "E-SEQ: breadth-first search over threaded-news histories (create bundle, create category, post with title/poster lengths 1 and 255 and bodies of 0/1/70/65000 bytes, reply, delete article, delete item, creates under a taken name, reload, reload after the operator restored an older file) issued through the real connection loop, " +
			"compared after every transition with a reference news model: get-article for every present id, list-articles decoded by a strict reference decoder, category listings of every path, and a second store freshly loaded from the YAML file; " +
			"states deduplicated by the canonical news tree",
		Assumptions: []string{"fresh names only for new bundles/categories; replies only to present parents; links of remaining articles after a deletion are not specified by the property and not compared"},
		Run:            runC18,
		Replay:         replayC18,
		MinOutcomes:    20,
		QuickBudget:    240 * time.Second,
		ThoroughBudget: 25 * time.Minute,
	})
}

type c18Art struct {
	Title, Poster, Body string
	Date                [8]byte
	Prev, Next, Parent  uint32
	FirstChild          uint32
	LinksKnown          bool // false once a deletion in this category made the links unspecified
}

type c18Node struct {
	Name     string
	Category bool
	Kids     map[string]*c18Node
	Arts     map[uint32]*c18Art
}

type c18World struct {
	reloaded bool // the store was reloaded from the file since the last write (same observable state, different in-memory representation)
	wd   *world.World
	adm  *world.Client // poster name "p"
	adL  *world.Client // poster name of 255 bytes
	root *c18Node
	viol []explore.SchedV
}

func (x *c18World) fail(clause, detail string) {
	x.viol = append(x.viol, explore.SchedV{Signature: "C18/" + clause, Detail: detail})
}

func (x *c18World) node(path []string) *c18Node {
	n := x.root
	for _, p := range path {
		if n == nil {
			return nil
		}
		n = n.Kids[p]
	}
	return n
}

func splitPath(s string) []string {
	if s == "" {
		return nil
	}
	return strings.Split(s, "/")
}

// hotlineDate: year (2), milliseconds (2), seconds since the start of the year (4).
func hotlineDate(t time.Time) [8]byte {
	var d [8]byte
	binary.BigEndian.PutUint16(d[0:], uint16(t.Year()))
	start := time.Date(t.Year(), time.January, 1, 0, 0, 0, 0, time.Local)
	binary.BigEndian.PutUint32(d[4:], uint32(t.Sub(start).Seconds()))
	return d
}

var c18LongName = strings.Repeat("N", 255)

func (x *c18World) apply(op string) bool {
	p := opSplit(op)
	for i := range p { // L255 stands for a name of 255 bytes (the longest a path item can carry), also inside paths
		p[i] = strings.ReplaceAll(p[i], "L255", c18LongName)
	}
	var path []string
	if len(p) > 1 {
		path = splitPath(p[1])
	}
	switch p[0] {
	case "bundle", "cat":
		parent := x.node(path)
		if parent == nil || parent.Category {
			return false
		}
		// creating an item under a name that is taken (two administrators with the same idea, a stale
		// client): whatever the reply, nothing that is there may disappear
		dup := parent.Kids[p[2]] != nil
		var id uint32
		if p[0] == "bundle" {
			id = x.adm.Req(ref.TNewNewsFldr, ref.FS(ref.FFileName, p[2]), ref.F(ref.FNewsPath, ref.NewsPathBytes(path...)))
		} else {
			id = x.adm.Req(ref.TNewNewsCat, ref.FS(ref.FNewsCatName, p[2]), ref.F(ref.FNewsPath, ref.NewsPathBytes(path...)))
		}
		world.Quiet()
		if dup {
			break
		}
		if r := x.adm.Reply(id); r == nil || r.Err != 0 {
			x.fail("create/request-failed", fmt.Sprintf("%s: %v", op, r))
		}
		parent.Kids[p[2]] = &c18Node{Name: p[2], Category: p[0] == "cat", Kids: map[string]*c18Node{}, Arts: map[uint32]*c18Art{}}
	case "post", "reply", "replygone":
		cat := x.node(path)
		if cat == nil || !cat.Category {
			return false
		}
		title, body, cl := "t", "b", x.adm
		poster := "p"
		var parentID uint32
		if p[0] == "reply" {
			v, _ := strconv.Atoi(p[2])
			parentID = uint32(v)
			if cat.Arts[parentID] == nil {
				return false
			}
			title = "re"
		} else if p[0] == "replygone" {
			// a reply to an article that is not there (any more): the client wrote it while somebody deleted the parent.
			// It is either refused with nothing changed, or kept with the parent it names.
			v, _ := strconv.Atoi(p[2])
			parentID = uint32(v)
			if cat.Arts[parentID] != nil || len(cat.Arts) == 0 {
				return false
			}
			title = "re"
			id := cl.Req(ref.TPostNewsArt, ref.F(ref.FNewsPath, ref.NewsPathBytes(path...)), ref.F32(ref.FNewsArtID, parentID),
				ref.FS(ref.FNewsArtTitle, title), ref.FS(ref.FNewsArtDataFlav, "text/plain"), ref.FS(ref.FNewsArtData, body))
			world.Quiet()
			r := cl.Reply(id)
			if r == nil {
				x.fail("reply-to-missing-article/not-answered", op)
				break
			}
			if r.Err != 0 {
				break
			}
			var maxID uint32
			for id := range cat.Arts {
				if id > maxID {
					maxID = id
				}
			}
			cat.Arts[maxID].Next = maxID + 1
			cat.Arts[maxID+1] = &c18Art{Title: title, Poster: poster, Body: body, Date: hotlineDate(vrt.Now()), Parent: parentID, Prev: maxID, LinksKnown: true}
			break
		} else {
			switch p[2] {
			case "small":
			case "empty":
				body = ""
			case "long": // title and poster of 255 bytes: the list entry exceeds 512 bytes
				title, cl, poster, body = strings.Repeat("T", 255), x.adL, c18LongName, strings.Repeat("m", 70)
			case "big":
				body = strings.Repeat("B", 65000)
			case "max": // the largest body a field can carry
				body = strings.Repeat("M", 65535)
			case "tabnl": // text that starts with a tab and contains a line feed
				title, body = "\tT\nU", "\tDear all,\nthe server moves on Friday.\n"
			case "leadnl": // text that starts with a line feed
				title, body = "\nT", "\nHello,\nworld"
			case "mac": // Mac Roman text, as every classic client sends it: not valid UTF-8
				title, body = "Caf\x8e", "r\x8esum\x8e\r\t\xa5 na\x95ve\nfin"
			}
		}
		var maxID uint32
		for id := range cat.Arts {
			if id > maxID {
				maxID = id
			}
		}
		now := vrt.Now()
		id := cl.Req(ref.TPostNewsArt, ref.F(ref.FNewsPath, ref.NewsPathBytes(path...)), ref.F32(ref.FNewsArtID, parentID),
			ref.FS(ref.FNewsArtTitle, title), ref.FS(ref.FNewsArtDataFlav, "text/plain"), ref.FS(ref.FNewsArtData, body))
		world.Quiet()
		if r := cl.Reply(id); r == nil || r.Err != 0 {
			x.fail("post/request-failed", fmt.Sprintf("%s: %v", op, r))
		}
		a := &c18Art{Title: title, Poster: poster, Body: body, Date: hotlineDate(now), Parent: parentID, Prev: maxID, LinksKnown: true}
		newID := maxID + 1
		if prev := cat.Arts[maxID]; prev != nil {
			prev.Next = newID
		}
		if par := cat.Arts[parentID]; par != nil && par.FirstChild == 0 {
			par.FirstChild = newID
		}
		cat.Arts[newID] = a
	case "delart":
		cat := x.node(path)
		v, _ := strconv.Atoi(p[2])
		if cat == nil || !cat.Category || cat.Arts[uint32(v)] == nil {
			return false
		}
		id := x.adm.Req(ref.TDelNewsArt, ref.F(ref.FNewsPath, ref.NewsPathBytes(path...)), ref.F32(ref.FNewsArtID, uint32(v)))
		world.Quiet()
		if r := x.adm.Reply(id); r == nil || r.Err != 0 {
			x.fail("delete-article/request-failed", fmt.Sprintf("%s: %v", op, r))
		}
		delete(cat.Arts, uint32(v))
		for _, a := range cat.Arts {
			a.LinksKnown = false
		}
	case "delartmissing":
		// deleting an article of a category that does not exist (a stale client): nothing may appear or disappear
		if x.node(path) != nil || len(path) == 0 {
			return false
		}
		x.adm.Req(ref.TDelNewsArt, ref.F(ref.FNewsPath, ref.NewsPathBytes(path...)), ref.F32(ref.FNewsArtID, 1))
		world.Quiet()
	case "delmissing":
		// deleting an item that does not exist (a stale client): nothing else may disappear
		if x.node(path) != nil || len(path) == 0 {
			return false
		}
		x.adm.Req(ref.TDelNewsItem, ref.F(ref.FNewsPath, ref.NewsPathBytes(path...)))
		world.Quiet()
	case "delitem":
		n := x.node(path)
		if n == nil || len(path) == 0 {
			return false
		}
		id := x.adm.Req(ref.TDelNewsItem, ref.F(ref.FNewsPath, ref.NewsPathBytes(path...)))
		world.Quiet()
		if r := x.adm.Reply(id); r == nil || r.Err != 0 {
			x.fail("delete-item/request-failed", fmt.Sprintf("%s: %v", op, r))
		}
		delete(x.node(path[:len(path)-1]).Kids, path[len(path)-1])
	case "restore":
		// the operator puts an older news file back and has the server reload it: the tree is the file's
		// tree, nothing that is only in memory survives
		if err := os.WriteFile(filepath.Join(x.wd.ConfigDir, "ThreadedNews.yaml"), []byte(c18InitialNews), 0644); err != nil {
			panic(err)
		}
		if err := x.wd.Srv.ThreadedNewsMgr.(*mobius.ThreadedNewsYAML).Load(); err != nil {
			x.fail("reload/news-file-does-not-load", err.Error())
		}
		x.root = c18InitialModel()
		x.reloaded = true
		return true
	case "reload":
		if err := x.wd.Srv.ThreadedNewsMgr.(*mobius.ThreadedNewsYAML).Load(); err != nil {
			x.fail("reload/news-file-does-not-load", err.Error())
		}
		x.reloaded = true
		return true
	default:
		panic(op)
	}
	x.reloaded = false
	return true
}

func be32(b []byte) uint32 {
	if len(b) != 4 {
		return 0xFFFFFFFF
	}
	return binary.BigEndian.Uint32(b)
}

// check compares every view with the model and returns the canonical tree.
func (x *c18World) check() string {
	var canon []string
	var walk func(path []string, n *c18Node)
	walk = func(path []string, n *c18Node) {
		ps := strings.Join(path, "/")
		// category listing of this path
		if !n.Category {
			id := x.adm.Req(ref.TGetNewsCatList, ref.F(ref.FNewsPath, ref.NewsPathBytes(path...)))
			world.Quiet()
			r := x.adm.Reply(id)
			var got, want []string
			if r == nil || r.Err != 0 {
				x.fail("listing/category-list-failed", fmt.Sprintf("path %q: %v", ps, r))
			} else {
				for _, d := range r.GetAll(ref.FNewsCatListData) {
					e, err := ref.DecodeNewsCat(d)
					if err != nil {
						x.fail("listing/category-entry-undecodable", fmt.Sprintf("path %q: %v (%x)", ps, err, d))
						continue
					}
					got = append(got, fmt.Sprintf("%d:%s", e.Type, e.Name))
				}
			}
			for name, k := range n.Kids {
				t := 2
				if k.Category {
					t = 3
				}
				want = append(want, fmt.Sprintf("%d:%s", t, name))
			}
			sort.Strings(got)
			sort.Strings(want)
			if r != nil && strings.Join(got, ",") != strings.Join(want, ",") {
				x.fail("listing/category-list-differs-from-model", fmt.Sprintf("path %q lists %v, model %v", ps, got, want))
			}
			canon = append(canon, fmt.Sprintf("B %s %v", ps, got))
		} else {
			// list-articles
			id := x.adm.Req(ref.TGetNewsArtList, ref.F(ref.FNewsPath, ref.NewsPathBytes(path...)))
			world.Quiet()
			r := x.adm.Reply(id)
			var ids []int
			for aid := range n.Arts {
				ids = append(ids, int(aid))
			}
			sort.Ints(ids)
			if r == nil || r.Err != 0 {
				x.fail("list/article-list-failed", fmt.Sprintf("path %q: %v", ps, r))
			} else {
				d, _ := r.Get(ref.FNewsArtListData)
				l, err := ref.DecodeNewsList(d)
				if err != nil {
					x.fail("list/article-list-not-parseable", fmt.Sprintf("category %q with %d articles: %v (%d bytes)", ps, len(ids), err, len(d)))
				} else {
					var got []int
					for _, e := range l.Articles {
						got = append(got, int(e.ID))
						if a := n.Arts[e.ID]; a != nil {
							if e.Title != a.Title || e.Poster != a.Poster || e.Date != a.Date || e.Parent != a.Parent {
								x.fail("list/entry-differs-from-article", fmt.Sprintf("category %q article %d: listed title %q poster %q date %x parent %d", ps, e.ID, clip(e.Title, 20), clip(e.Poster, 20), e.Date, e.Parent))
							}
							if len(e.ArtSizes) != 1 || int(e.ArtSizes[0]) != len(a.Body) || e.Flavors[0] != "text/plain" {
								x.fail("list/entry-size-or-flavor-wrong", fmt.Sprintf("category %q article %d: flavors %v sizes %v body %d bytes", ps, e.ID, e.Flavors, e.ArtSizes, len(a.Body)))
							}
						}
					}
					if fmt.Sprint(got) != fmt.Sprint(ids) {
						x.fail("list/articles-listed-differ-from-present-or-not-in-id-order", fmt.Sprintf("category %q lists %v, present %v", ps, got, ids))
					}
				}
			}
			// get-article for every present id, and for one absent id
			for _, aid := range ids {
				a := n.Arts[uint32(aid)]
				gid := x.adm.Req(ref.TGetNewsArtData, ref.F(ref.FNewsPath, ref.NewsPathBytes(path...)), ref.F32(ref.FNewsArtID, uint32(aid)), ref.FS(ref.FNewsArtDataFlav, "text/plain"))
				world.Quiet()
				g := x.adm.Reply(gid)
				if g == nil || g.Err != 0 || len(g.Fields) == 0 {
					x.fail("article/present-article-not-retrievable", fmt.Sprintf("category %q article %d: %v", ps, aid, g))
					continue
				}
				date, _ := g.Get(ref.FNewsArtDate)
				if fieldStr(g, ref.FNewsArtTitle) != a.Title || fieldStr(g, ref.FNewsArtPoster) != a.Poster || fieldStr(g, ref.FNewsArtData) != a.Body || string(date) != string(a.Date[:]) {
					x.fail("article/content-changed", fmt.Sprintf("category %q article %d: got title %q poster %q date %x body %d bytes; stored title %q poster %q date %x body %d bytes",
						ps, aid, clip(fieldStr(g, ref.FNewsArtTitle), 20), clip(fieldStr(g, ref.FNewsArtPoster), 20), date, len(fieldStr(g, ref.FNewsArtData)), clip(a.Title, 20), clip(a.Poster, 20), a.Date, len(a.Body)))
				}
				if a.LinksKnown {
					pv, _ := g.Get(ref.FNewsArtPrev)
					nx, _ := g.Get(ref.FNewsArtNext)
					pa, _ := g.Get(ref.FNewsArtParent)
					fc, _ := g.Get(ref.FNewsArt1stChild)
					if be32(pv) != a.Prev || be32(nx) != a.Next || be32(pa) != a.Parent || be32(fc) != a.FirstChild {
						x.fail("article/links-wrong", fmt.Sprintf("category %q article %d: prev %d next %d parent %d first-child %d, model prev %d next %d parent %d first-child %d",
							ps, aid, be32(pv), be32(nx), be32(pa), be32(fc), a.Prev, a.Next, a.Parent, a.FirstChild))
					}
				}
				canon = append(canon, fmt.Sprintf("A %s %d %s/%s/%d/%d/%v", ps, aid, clip(a.Title, 3), clip(a.Poster, 3), len(a.Body), a.Parent, a.LinksKnown))
			}
			canon = append(canon, fmt.Sprintf("C %s %v", ps, ids))
		}
		var names []string
		for name := range n.Kids {
			names = append(names, name)
		}
		sort.Strings(names)
		for _, name := range names {
			walk(append(append([]string(nil), path...), name), n.Kids[name])
		}
	}
	walk(nil, x.root)
	// a second store loaded from the YAML file
	st, err := mobius.NewThreadedNewsYAML(filepath.Join(x.wd.ConfigDir, "ThreadedNews.yaml"))
	if err != nil {
		x.fail("reload/news-file-does-not-load", err.Error())
	} else {
		var cmp func(path []string, n *c18Node)
		cmp = func(path []string, n *c18Node) {
			ps := strings.Join(path, "/")
			if n.Category {
				for aid, a := range n.Arts {
					g := st.GetArticle(path, aid)
					if g == nil || g.Title != a.Title || g.Poster != a.Poster || g.Data != a.Body || g.Date != a.Date || binary.BigEndian.Uint32(g.ParentArt[:]) != a.Parent {
						x.fail("reload/article-differs-after-reload", fmt.Sprintf("category %q article %d", ps, aid))
					}
				}
				l := st.ListArticles(path)
				if l.Count != len(n.Arts) {
					x.fail("reload/article-count-differs-after-reload", fmt.Sprintf("category %q: %d after reload, %d present", ps, l.Count, len(n.Arts)))
				}
			} else {
				var got, want []string
				for _, c := range st.GetCategories(path) {
					got = append(got, c.Name)
				}
				for name := range n.Kids {
					want = append(want, name)
				}
				sort.Strings(got)
				sort.Strings(want)
				if strings.Join(got, ",") != strings.Join(want, ",") {
					x.fail("reload/children-differ-after-reload", fmt.Sprintf("path %q: %v after reload, model %v", ps, got, want))
				}
			}
			for name, k := range n.Kids {
				cmp(append(append([]string(nil), path...), name), k)
			}
		}
		cmp(nil, x.root)
	}
	return strings.Join(canon, " | ") + fmt.Sprintf(" | reloaded=%v", x.reloaded)
}

const c18InitialNews = `Categories:
  B1:
    Type: [0, 2]
    Name: B1
    Articles: {}
    SubCats: {}
  C1:
    Type: [0, 3]
    Name: C1
    Articles: {}
    SubCats: {}
`

func c18InitialModel() *c18Node {
	return &c18Node{Kids: map[string]*c18Node{
		"B1": {Name: "B1", Kids: map[string]*c18Node{}, Arts: map[uint32]*c18Art{}},
		"C1": {Name: "C1", Category: true, Kids: map[string]*c18Node{}, Arts: map[uint32]*c18Art{}},
	}}
}

func c18Exec(hist []string) (res explore.SeqResult) {
	s := seq(func() {
		wd := world.New(world.Cfg{NewsYAML: c18InitialNews, Accounts: []world.Acct{
			{Login: "guest", Name: "Guest"},
			{Login: "admin", Name: "Admin", Password: "adminpw", Access: world.AllAccess},
		}})
		defer wd.Close()
		x := &c18World{wd: wd, root: c18InitialModel()}
		var r1, r2 *ref.Tx
		x.adm, r1 = wd.Connect("10.9.9.9:999", "admin", "adminpw", "p")
		x.adL, r2 = wd.Connect("10.9.9.8:998", "admin", "adminpw", c18LongName)
		if r1 == nil || r2 == nil || r1.Err != 0 || r2.Err != 0 {
			res.Violations = append(res.Violations, explore.SchedV{Signature: "C18/setup", Detail: "admin login failed"})
			return
		}
		for i, op := range hist {
			vrt.Advance(time.Duration(i+1) * 61 * time.Second) // distinct dates per post
			if !x.apply(op) {
				res.Skip = true
				return
			}
		}
		res.Canon = x.check()
		res.Violations = x.viol
	})
	for _, p := range s.Panics() {
		res.Violations = append(res.Violations, explore.SchedV{Signature: "C18/panic/" + vrt.PanicSite(p), Detail: p})
	}
	return res
}

var c18Late = map[string]bool{"post:C1:mac": true, "cat::Caf%8E": true, "replygone:C1:1": true, "cat::L255": true, "post:L255:small": true, "cat:B1:L255": true, "post:B1/L255:small": true}

func c18Alphabet() []string {
	return []string{
		"bundle::B2", "bundle:B1:B3", "cat::C3", "cat:B1:C2", "cat::<<", "bundle:B1:<<", "post:C1:tabnl", "post:C1:leadnl", "post:<<:small", "post:C1:mac", "cat::Caf%8E", "replygone:C1:1", "cat::L255", "post:L255:small", "cat:B1:L255", "post:B1/L255:small",
		"post:C1:small", "post:C1:empty", "post:C1:long", "post:C1:big", "post:B1/C2:small", "post:B1/C2:long",
		"reply:C1:1", "reply:C1:2", "reply:B1/C2:1",
		"delart:C1:1", "delart:C1:2", "delart:C1:3", "delart:B1/C2:1",
		"delitem:C1", "delitem:B1", "delitem:B1/C2", "delitem:B2",
		"delartmissing:Genral", "delartmissing:B1/Genral", "post:C1:max", "delmissing:BX/C1", "delmissing:B1/C1", "delmissing:BX/BY/C1", "delmissing:B1/C2", "delmissing:B2/C3",
		"reload", "restore",
	}
}

// c18Concurrent: two users post at the same moment (E-SCHED): both articles must be kept, in
// memory and in the file a restarted server loads.
func c18Concurrent(sameCat bool) func() explore.SchedOutcome {
	return func() (out explore.SchedOutcome) {
		vrt.BeginSetup()
		wd := world.New(world.Cfg{NewsYAML: strings.Replace(c18InitialNews, "  C1:", "  C9:\n    Type: [0, 3]\n    Name: C9\n    Articles: {}\n    SubCats: {}\n  C1:", 1), Accounts: []world.Acct{
			{Login: "guest", Name: "Guest"},
			{Login: "admin", Name: "Admin", Password: "adminpw", Access: world.AllAccess},
		}})
		defer wd.Close()
		a1, r1 := wd.Connect("10.9.9.1:991", "admin", "adminpw", "p1")
		a2, r2 := wd.Connect("10.9.9.2:992", "admin", "adminpw", "p2")
		if r1 == nil || r2 == nil || r1.Err != 0 || r2.Err != 0 {
			out.Violations = append(out.Violations, explore.SchedV{Signature: "C18/concurrent/setup", Detail: "logins failed"})
			return
		}
		cat2 := "C9"
		if sameCat {
			cat2 = "C1"
		}
		post := func(c *world.Client, cat, title string) {
			c.Send(ref.Tx{Type: ref.TPostNewsArt, Fields: []ref.Fld{ref.F(ref.FNewsPath, ref.NewsPathBytes(cat)), ref.F32(ref.FNewsArtID, 0),
				ref.FS(ref.FNewsArtTitle, title), ref.FS(ref.FNewsArtDataFlav, "text/plain"), ref.FS(ref.FNewsArtData, "body of "+title)}})
		}
		post(a1, "C1", "one")
		post(a2, cat2, "two")
		vrt.EndSetup()
		vrt.WaitQuiet()
		collect := func(list func(path []string) []byte) string {
			var all []string
			for _, cat := range []string{"C1", "C9"} {
				l, err := ref.DecodeNewsList(list([]string{cat}))
				if err != nil {
					all = append(all, cat+":undecodable:"+err.Error())
					continue
				}
				for _, e := range l.Articles {
					all = append(all, fmt.Sprintf("%s/%d/%s", cat, e.ID, e.Title))
				}
			}
			sort.Strings(all)
			return strings.Join(all, ",")
		}
		mem := collect(func(path []string) []byte {
			l := wd.Srv.ThreadedNewsMgr.ListArticles(path)
			return drain(&l)
		})
		st, err := mobius.NewThreadedNewsYAML(filepath.Join(wd.ConfigDir, "ThreadedNews.yaml"))
		disk := "unloadable"
		if err == nil {
			disk = collect(func(path []string) []byte {
				l := st.ListArticles(path)
				return drain(&l)
			})
		} else {
			out.Violations = append(out.Violations, explore.SchedV{Signature: "C18/concurrent/news-file-does-not-load", Detail: err.Error()})
		}
		if !strings.Contains(mem, "/one") || !strings.Contains(mem, "/two") {
			out.Violations = append(out.Violations, explore.SchedV{Signature: "C18/concurrent/acknowledged-article-missing", Detail: "in memory: " + mem})
		}
		if err == nil && mem != disk {
			out.Violations = append(out.Violations, explore.SchedV{Signature: "C18/concurrent/acknowledged-article-lost-on-reload", Detail: fmt.Sprintf("in memory %s, after reload %s", mem, disk)})
		}
		for _, p := range vrt.S.Panics() {
			out.Violations = append(out.Violations, explore.SchedV{Signature: "C18/concurrent/panic/" + vrt.PanicSite(p), Detail: p})
		}
		out.Canon = mem + " | " + disk
		return out
	}
}

// c18Listers: two users ask for the category listings of two different paths at the same moment
// (E-SCHED): each reply shows exactly the children of the path it was asked about.
func c18Listers() explore.SchedOutcome {
	var out explore.SchedOutcome
	defer func(old bool) { vrt.UnlockPoints = old }(vrt.UnlockPoints)
	vrt.UnlockPoints = true // the listing is used after the store's lock is released
	vrt.BeginSetup()
	news := strings.Replace(c18InitialNews, "    Name: B1\n    Articles: {}\n    SubCats: {}\n",
		"    Name: B1\n    Articles: {}\n    SubCats:\n      X1:\n        Type: [0, 3]\n        Name: X1\n        Articles: {}\n        SubCats: {}\n      X2:\n        Type: [0, 2]\n        Name: X2\n        Articles: {}\n        SubCats: {}\n", 1)
	wd := world.New(world.Cfg{NewsYAML: news, Accounts: []world.Acct{
		{Login: "guest", Name: "Guest"},
		{Login: "admin", Name: "Admin", Password: "adminpw", Access: world.AllAccess},
	}})
	defer wd.Close()
	a1, r1 := wd.Connect("10.9.9.1:991", "admin", "adminpw", "p1")
	a2, r2 := wd.Connect("10.9.9.2:992", "admin", "adminpw", "p2")
	a3, r3 := wd.Connect("10.9.9.3:993", "admin", "adminpw", "p3")
	if r1 == nil || r2 == nil || r3 == nil || r1.Err != 0 || r2.Err != 0 || r3.Err != 0 {
		out.Violations = append(out.Violations, explore.SchedV{Signature: "C18/listers/setup", Detail: "logins failed"})
		return out
	}
	id1 := a1.Send(ref.Tx{Type: ref.TGetNewsCatList})
	id2 := a2.Send(ref.Tx{Type: ref.TGetNewsCatList, Fields: []ref.Fld{ref.F(ref.FNewsPath, ref.NewsPathBytes("B1"))}})
	id3 := a3.Send(ref.Tx{Type: ref.TGetNewsCatList, Fields: []ref.Fld{ref.F(ref.FNewsPath, ref.NewsPathBytes("B1", "X2"))}})
	vrt.EndSetup()
	vrt.WaitQuiet()
	names := func(c *world.Client, id uint32) string {
		r := c.Reply(id)
		if r == nil || r.Err != 0 {
			return fmt.Sprintf("no listing: %v", r)
		}
		var got []string
		for _, d := range r.GetAll(ref.FNewsCatListData) {
			e, err := ref.DecodeNewsCat(d)
			if err != nil {
				got = append(got, "undecodable")
				continue
			}
			got = append(got, fmt.Sprintf("%d:%s", e.Type, e.Name))
		}
		sort.Strings(got)
		return strings.Join(got, ",")
	}
	g1, g2, g3 := names(a1, id1), names(a2, id2), names(a3, id3)
	if g1 != "2:B1,3:C1" || g2 != "2:X2,3:X1" || g3 != "" {
		out.Violations = append(out.Violations, explore.SchedV{Signature: "C18/listers/category-listing-is-not-the-children-of-its-path", Detail: fmt.Sprintf("root listed as [%s] (want 2:B1,3:C1), B1 listed as [%s] (want 2:X2,3:X1), B1/X2 listed as [%s] (want nothing)", g1, g2, g3)})
	}
	for _, p := range vrt.S.Panics() {
		out.Violations = append(out.Violations, explore.SchedV{Signature: "C18/listers/panic/" + vrt.PanicSite(p), Detail: p})
	}
	out.Canon = g1 + " | " + g2 + " | " + g3
	return out
}

func drain(r interface{ Read([]byte) (int, error) }) []byte {
	var out []byte
	buf := make([]byte, 4096)
	for i := 0; i < 100000; i++ {
		n, err := r.Read(buf)
		out = append(out, buf[:n]...)
		if err != nil {
			break
		}
	}
	return out
}

func runC18(w *explore.Worker) {
	bound := 2
	if w.Thorough {
		bound = 3
	}
	for _, same := range []bool{false, true} {
		explore.ExploreSchedules(w, explore.SchedConfig{Harness: "C18concurrent", Params: fmt.Sprint(same), Bound: bound, FreeCost: 1, MaxSteps: 20000, Suspend: true}, c18Concurrent(same))
	}
	explore.ExploreSchedules(w, explore.SchedConfig{Harness: "C18concurrent", Params: "listers", Bound: bound, FreeCost: 1, MaxSteps: 20000, Suspend: true}, c18Listers)
	depth := 4
	if w.Thorough {
		depth = 5
	}
	// the operations added last (Mac Roman texts and names, a reply to a missing article) are explored one level less
	// deep than the rest: with them the deepest level alone would take the whole budget
	var base []string
	for _, op := range c18Alphabet() {
		if !c18Late[op] {
			base = append(base, op)
		}
	}
	explore.ExploreHistories(w, explore.SeqConfig{Name: "C18news", Alphabet: base, Depth: depth, Exec: c18Exec})
	explore.ExploreHistories(w, explore.SeqConfig{Name: "C18news-all-operations", Alphabet: c18Alphabet(), Depth: depth - 1, Exec: c18Exec})
}

func replayC18(w *explore.Worker, raw json.RawMessage) {
	var sr explore.SchedReplay
	if json.Unmarshal(raw, &sr) == nil && sr.Kind == "schedule" {
		h := c18Concurrent(sr.Params == "true")
		if sr.Params == "listers" {
			h = c18Listers
		}
		_, out, err := explore.RunSchedule(sr.Choices, 20000, h)
		if err != nil {
			w.Broken("replay: %v", err)
		}
		for _, v := range out.Violations {
			w.Violation(v.Signature, v.Detail, 0, sr)
		}
		return
	}
	var r explore.SeqReplay
	if err := json.Unmarshal(raw, &r); err != nil {
		w.Broken("bad replay: %v", err)
		return
	}
	res := c18Exec(r.History)
	for _, v := range res.Violations {
		w.Violation(v.Signature, v.Detail, 0, r)
	}
}

// opSplit splits an operation at ':' and turns %XX into the byte XX: operations are written to replay files as JSON
// strings, which cannot carry bytes that are not valid UTF-8 (Mac Roman names).
func opSplit(op string) []string {
	p := strings.Split(op, ":")
	for i := range p {
		p[i] = unescPct(p[i])
	}
	return p
}

func unescPct(s string) string {
	var b []byte
	for i := 0; i < len(s); i++ {
		if s[i] == '%' && i+2 < len(s)+0 && i+3 <= len(s) {
			if v, err := strconv.ParseUint(s[i+1:i+3], 16, 8); err == nil {
				b = append(b, byte(v))
				i += 2
				continue
			}
		}
		b = append(b, s[i])
	}
	return string(b)
}
