package props

import (
	"bytes"
	"context"
	"encoding/binary"
	"encoding/json"
	"fmt"
	"github.com/jhalter/mobius/verifh/vrt"
	"github.com/jhalter/mobius/verifh/vrt/vnet"
	"os"
	"path/filepath"
	"strings"
	"time"

	"github.com/jhalter/mobius/verifh/explore"
	"github.com/jhalter/mobius/verifh/ref"
	"github.com/jhalter/mobius/verifh/world"
)

// C08: downloads deliver exactly the file's bytes.

func init() {
	register(&Prop{
		ID:    "C08",
		Level: "exploration",
		Rule: "bounded-exhaustive input enumeration with a reference transfer client on the real control and transfer paths: file sizes around every buffer boundary (0..1 MiB+3, thorough 5 MiB) x stored fork sets " +
			"(none, info, info+comment, info without comment size, info+resource, resource only) x resume offsets (all 0..size for small files, else 0,1,size/2,size-1,size) x names (1 char, 31 chars, space, Mac-Roman, extensions) x preview; " +
			"distinct = distinct (size class, forks, offset class, preview, observation) tuples",
		Assumptions:    []string{"one empty MACR fork header after the announced transfer size is established behaviour (pinned by the existing download test) and tolerated", "on resume the DATA fork header's size and the presence of a MACR header are not specified by the property and not checked"},
		Run:            runC08,
		Replay:         replayC08,
		MinOutcomes:    10,
		QuickBudget:    150 * time.Second,
		ThoroughBudget: 25 * time.Minute,
	})
}

type c08Case struct {
	Size    int    `json:"size"`
	Name    []byte `json:"name"`   // as sent on the wire (Mac-Roman)
	Disk    string `json:"disk"`   // name on disk (UTF-8)
	Forks   string `json:"forks"`  // none | info | infoc | infonc | inforsrc | rsrc
	Offset  int    `json:"offset"` // -1 = no resume data
	Preview bool   `json:"preview"`
	OwnRoot bool   `json:"ownroot"`           // the account has its own file root; the server-wide root holds a different file of the same name
	Collide bool   `json:"collide,omitempty"` // another download is granted afterwards and the server's random draw for its reference number is the same
	Peek    bool   `json:"peek,omitempty"`    // another user asks for the downloader's client info (which lists its transfers) between grant and transfer
	Overlap bool   `json:"overlap,omitempty"` // through the real accept loop of the transfer port, overlapping with an earlier, shorter transfer that ends first
	Partial bool   `json:"partial"`           // only a partial upload of the name exists (it is listed under the final name): refused, or served as what it is
}

func c08Data(n int) []byte {
	b := make([]byte, n)
	for i := range b {
		b[i] = byte(i*131 + i>>8*7 + 3)
	}
	return b
}

func c08Rsrc() []byte { return bytes.Repeat([]byte("RSRC-fork-bytes!"), 13) }

func c08Run(w *explore.Worker, c c08Case) {
	fail := func(clause, detail string) {
		w.Violation("C08/"+clause+"/forks="+c.Forks, fmt.Sprintf("case %s: %s", js(c), detail), c.Size/1000+len(c.Name), c)
	}
	data := c08Data(c.Size)
	var storedInfo *ref.InfoFork
	var rsrc []byte
	seqChecked(w, "C08", "download", c, func() {
		wd := world.New(world.Cfg{
			Accounts: []world.Acct{{Login: "guest", Name: "Guest"}, {Login: "u", Name: "u", Password: "pw", Access: world.AllAccess, FileRoot: map[bool]string{true: "$CONFIG/Rroot", false: ""}[c.OwnRoot]}},
			Files: func(root string) {
				if c.OwnRoot {
					_ = os.WriteFile(filepath.Join(root, c.Disk), append([]byte("DECOY in the server-wide root "), data...), 0644)
					root = filepath.Join(filepath.Dir(root), "Rroot")
					_ = os.MkdirAll(root, 0755)
				}
				_ = os.WriteFile(filepath.Join(root, "other.bin"), []byte("another file altogether"), 0644)
				if c.Partial {
					_ = os.WriteFile(filepath.Join(root, c.Disk+".incomplete"), data, 0644)
				} else {
					_ = os.WriteFile(filepath.Join(root, c.Disk), data, 0644)
				}
				mk := func(comment string, noSize bool) {
					f := ref.NewInfoFork(c.Disk, "TEXT", "ttxt", comment)
					f.NoCommentSize = noSize
					storedInfo = &f
					_ = os.WriteFile(filepath.Join(root, ".info_"+c.Disk), f.Encode(), 0644)
				}
				switch c.Forks {
				case "info":
					mk("", false)
				case "infoc":
					mk("a comment", false)
				case "infonc":
					mk("", true)
				case "inforsrc":
					mk("", false)
					rsrc = c08Rsrc()
				case "rsrc":
					rsrc = c08Rsrc()
				}
				if rsrc != nil {
					_ = os.WriteFile(filepath.Join(root, ".rsrc_"+c.Disk), rsrc, 0644)
				}
			},
		})
		defer wd.Close()
		u, r := wd.Connect("10.0.0.1:1001", "u", "pw", "u")
		if r == nil || r.Err != 0 {
			w.Broken("C08: login failed")
			return
		}
		fs := []ref.Fld{ref.F(ref.FFileName, c.Name)}
		k := 0
		if c.Offset >= 0 {
			k = c.Offset
			fs = append(fs, ref.F(ref.FFileResumeData, ref.ResumeData(uint32(k), nil)))
		}
		if c.Preview {
			fs = append(fs, ref.F16(ref.FFileXferOptions, 2))
		}
		id := u.Req(ref.TDownloadFile, fs...)
		world.Quiet()
		rep := u.Reply(id)
		if c.Partial && rep != nil && rep.Err != 0 {
			w.Outcome(fmt.Sprintf("partial %d refused", sizeClass(c.Size)))
			return
		}
		if rep == nil || rep.Err != 0 {
			fail("granted-download-refused", fmt.Sprint(rep))
			return
		}
		refnum, _ := rep.Get(ref.FRefNum)
		if c.Collide && len(refnum) == 4 {
			// an environment answer the harness decides: the next reference number drawn equals one that is waiting
			vrt.ForceRand(binary.BigEndian.Uint32(refnum))
			u.Req(ref.TDownloadFile, ref.FS(ref.FFileName, "other.bin"))
			world.Quiet()
		}
		if c.Peek {
			if adm, ar := wd.Connect("10.0.0.9:1009", "u", "pw", "adm"); ar != nil && ar.Err == 0 {
				id := adm.Req(ref.TGetClientInfoText, ref.F16(ref.FUserID, 1))
				world.Quiet()
				if adm.Reply(id) == nil {
					fail("client-info-about-the-downloader-not-answered", "")
				}
			}
		}
		xs, _ := rep.Get(ref.FTransferSize)
		fsz, _ := rep.Get(ref.FFileSize)
		if len(refnum) != 4 || len(xs) != 4 || len(fsz) != 4 {
			fail("reply-fields-malformed", fmt.Sprint(rep))
			return
		}
		xferSize, fileSize := int(binary.BigEndian.Uint32(xs)), int(binary.BigEndian.Uint32(fsz))
		var conn *vnet.Conn
		if c.Overlap {
			// both transfers arrive through ServeFileTransfers; the first ends (and its handler returns, a few seconds
			// later) while the second, whose client reads slowly, is still being sent
			ln := &vnet.Listener{}
			ctx, cancel := context.WithCancel(context.Background())
			defer cancel()
			defer ln.Close()
			vrt.GoNamed("serve-transfers", func() { _ = wd.Srv.ServeFileTransfers(ctx, ln) })
			oid := u.Req(ref.TDownloadFile, ref.FS(ref.FFileName, "other.bin"))
			world.Quiet()
			orep := u.Reply(oid)
			if orep == nil || orep.Err != 0 {
				fail("granted-download-refused", "other.bin")
				return
			}
			oref, _ := orep.Get(ref.FRefNum)
			first := vnet.NewConn("xa", "10.0.0.1:2001")
			first.Feed(ref.Preamble(oref, 0))
			ln.Dial(first)
			world.Settle(1 * time.Second)
			conn = vnet.NewConn("xb", "10.0.0.1:2002")
			conn.Stalled = true
			conn.Feed(ref.Preamble(refnum, 0))
			ln.Dial(conn)
			world.Settle(20 * time.Second)
			conn.Stalled = false
			world.Settle(20 * time.Second)
		} else {
			conn = wd.DialTransfer("10.0.0.1:2001")
			conn.Feed(ref.Preamble(refnum, 0))
			world.Settle(10 * time.Second)
		}
		stream := conn.All()
		want := data[k:]
		obs := ""
		if fileSize != len(want) {
			fail("reply-file-size-is-not-the-remaining-data-length", fmt.Sprintf("file size field %d, remaining data %d", fileSize, len(want)))
		}
		if c.Preview {
			if !bytes.Equal(stream, want) {
				fail("preview-is-not-the-bare-data", fmt.Sprintf("stream %d bytes, data %d bytes, equal prefix %d", len(stream), len(want), commonPrefix(stream, want)))
			}
			if xferSize != len(want) {
				fail("preview-transfer-size-wrong", fmt.Sprintf("announced %d, data %d", xferSize, len(want)))
			}
			obs = "preview"
		} else {
			p, err := ref.ParseFlat(stream)
			if err != nil {
				fail("header-not-parseable", err.Error())
				return
			}
			if p.InfoProblem != "" {
				fail("header-info-fork-size-inconsistent", p.InfoProblem)
			}
			if int(p.DataDecl) != len(want) {
				fail("header-data-fork-size-is-not-the-data-that-follows", fmt.Sprintf("the DATA fork header announces %d bytes, %d data bytes (from offset %d of %d) follow", p.DataDecl, len(want), k, len(data)))
			}
			if p.Name != c.Disk {
				fail("header-name-wrong", fmt.Sprintf("name %q (length field says %d) for file %q", p.Name, len(p.Name), c.Disk))
			}
			if storedInfo != nil && (p.Comment != string(storedInfo.Comment) || p.TypeSig != "TEXT") {
				fail("header-does-not-carry-the-stored-info-fork", fmt.Sprintf("comment %q type %q", p.Comment, p.TypeSig))
			}
			rest := p.Rest
			if len(rest) < len(want) || !bytes.Equal(rest[:len(want)], want) {
				fail("data-fork-bytes-wrong", fmt.Sprintf("after the header: %d bytes, expected data[%d:] = %d bytes, equal prefix %d", len(rest), k, len(want), commonPrefix(rest, want)))
				return
			}
			tail := rest[len(want):]
			macr := append(append([]byte("MACR"), make([]byte, 8)...), binary.BigEndian.AppendUint32(nil, uint32(len(rsrc)))...)
			switch {
			case rsrc != nil && c.Offset < 0:
				if !bytes.Equal(tail, append(append([]byte(nil), macr...), rsrc...)) {
					fail("resource-fork-not-delivered", fmt.Sprintf("after the data fork: %d bytes, expected MACR header + %d resource bytes", len(tail), len(rsrc)))
				}
			case rsrc != nil:
				if !bytes.Equal(tail, rsrc) && !bytes.Equal(tail, append(append([]byte(nil), macr...), rsrc...)) {
					fail("resource-fork-not-delivered", fmt.Sprintf("after the data fork: %d bytes, expected %d resource bytes", len(tail), len(rsrc)))
				}
			default:
				if len(tail) != 0 && !(c.Offset < 0 && bytes.Equal(tail, macr)) {
					fail("bytes-after-the-data-fork", fmt.Sprintf("%d extra bytes: %x", len(tail), tail[:min(len(tail), 32)]))
				}
				if xferSize != p.HeaderLen+len(want) {
					fail("transfer-size-is-not-header-plus-remaining-data", fmt.Sprintf("announced %d, header %d + remaining data %d = %d", xferSize, p.HeaderLen, len(want), p.HeaderLen+len(want)))
				}
			}
			obs = fmt.Sprintf("hdr=%d info=%d tail=%d", p.HeaderLen, p.InfoSize, len(tail))
		}
		offc := "none"
		if c.Offset >= 0 {
			offc = map[bool]string{true: "end", false: "mid"}[c.Offset == c.Size]
			if c.Offset == 0 {
				offc = "zero"
			}
		}
		w.Outcome(fmt.Sprintf("%d %s %s %v %s", sizeClass(c.Size), c.Forks, offc, c.Preview, obs))
	})
}

func sizeClass(n int) int {
	switch {
	case n == 0:
		return 0
	case n < 512:
		return 1
	case n <= 4096:
		return 2
	case n <= 32768:
		return 3
	default:
		return 4
	}
}

func commonPrefix(a, b []byte) int {
	n := 0
	for n < len(a) && n < len(b) && a[n] == b[n] {
		n++
	}
	return n
}

func c08Cases(thorough bool) []c08Case {
	var cs []c08Case
	sizes := []int{0, 1, 2, 8, 64, 511, 512, 513, 4095, 4096, 4097, 32767, 32768, 32769, 65537, 1<<20 + 3}
	if thorough {
		sizes = append(sizes, 5<<20)
	}
	forks := []string{"none", "info", "infoc", "infonc", "inforsrc", "rsrc"}
	for _, sz := range sizes {
		var offs []int
		if sz <= 64 {
			for k := -1; k <= sz; k++ {
				offs = append(offs, k)
			}
		} else {
			offs = []int{-1, 0, 1, sz / 2, sz - 1, sz}
		}
		for _, f := range forks {
			for _, k := range offs {
				cs = append(cs, c08Case{Size: sz, Name: []byte("f.txt"), Disk: "f.txt", Forks: f, Offset: k})
			}
			cs = append(cs, c08Case{Size: sz, Name: []byte("f.txt"), Disk: "f.txt", Forks: f, Offset: -1, Preview: true})
		}
	}
	for _, sz := range []int{1, 400, 40000} {
		for _, k := range []int{-1, 0, 1} {
			cs = append(cs, c08Case{Size: sz, Name: []byte("f.txt"), Disk: "f.txt", Forks: "none", Offset: k, Partial: true})
			cs = append(cs, c08Case{Size: sz, Name: []byte("f.txt"), Disk: "f.txt", Forks: "none", Offset: k, Collide: true})
			cs = append(cs, c08Case{Size: sz, Name: []byte("f.txt"), Disk: "f.txt", Forks: "none", Offset: k, Peek: true})
			cs = append(cs, c08Case{Size: sz, Name: []byte("f.txt"), Disk: "f.txt", Forks: "none", Offset: k, Overlap: true})
		}
	}
	for _, sz := range []int{0, 8, 513} {
		for _, f := range forks {
			for _, k := range []int{-1, 0, 1} {
				if k <= sz {
					cs = append(cs, c08Case{Size: sz, Name: []byte("f.txt"), Disk: "f.txt", Forks: f, Offset: k, OwnRoot: true})
				}
			}
		}
	}
	names := []struct {
		wire []byte
		disk string
	}{
		{[]byte("a"), "a"},
		{[]byte(strings.Repeat("n", 27) + ".txt"), strings.Repeat("n", 27) + ".txt"},
		{[]byte("with space.txt"), "with space.txt"},
		{[]byte{0x8E, 't', 0x8E, '.', 't', 'x', 't'}, "été.txt"},
		{[]byte("x.sit"), "x.sit"},
		{[]byte("noext"), "noext"},
	}
	for _, n := range names {
		for _, sz := range []int{0, 513} {
			for _, f := range forks {
				for _, k := range []int{-1, 0, 1} {
					if k > sz {
						continue
					}
					cs = append(cs, c08Case{Size: sz, Name: n.wire, Disk: n.disk, Forks: f, Offset: k})
				}
			}
		}
	}
	return cs
}

func runC08(w *explore.Worker) {
	cs := c08Cases(w.Thorough)
	for i, c := range cs {
		if !w.Next() {
			continue
		}
		if w.Expired() {
			w.Cap("time budget reached")
			return
		}
		w.Eval()
		c08Run(w, c)
		if i%211 == 0 {
			w.Sample(map[string]interface{}{"size": c.Size, "disk_name": c.Disk, "forks": c.Forks, "resume_offset": c.Offset, "preview": c.Preview})
		}
	}
	if w.Index == 0 {
		w.Count("cases", len(cs))
	}
}

func replayC08(w *explore.Worker, raw json.RawMessage) {
	var c c08Case
	if err := json.Unmarshal(raw, &c); err != nil {
		w.Broken("bad replay: %v", err)
		return
	}
	c08Run(w, c)
}
