package props

import (
	"bytes"
	"encoding/binary"
	"encoding/json"
	"fmt"
	"os"
	"path/filepath"
	"regexp"
	"sort"
	"strings"
	"time"

	"golang.org/x/text/encoding/charmap"

	"github.com/jhalter/mobius/verifh/explore"
	"github.com/jhalter/mobius/verifh/ref"
	"github.com/jhalter/mobius/verifh/vrt"
	"github.com/jhalter/mobius/verifh/world"
)

// C11: file views agree and file operations carry the whole file.

func init() {
	register(&Prop{
		ID:    "C11",
		Level: "model_checking",
		Rule: "E-SEQ: breadth-first search over file-management histories (rename, move, delete, create folder, alias, set comment on files with/without forks, a Mac-Roman name, folders, next to ignored entries and a partial upload) replayed through the real connection loop; " +
			"after every transition the real tree is compared with a reference namespace model (fork side-files and partial data travel or vanish with their file), every folder's listing with the model's visible entries, and every listed complete entry is addressed by its listed name " +
			"for get-info and download, whose size/type must agree with the listing and the bytes on disk; states deduplicated by the canonical real tree",
		Assumptions:    []string{"renames/moves only onto unused names; whether a folder's own comment side-file follows a folder rename is not specified and not compared", "ignore patterns ^\\. and ^@ (the shipped defaults)"},
		Run:            runC11,
		Replay:         replayC11,
		MinOutcomes:    10,
		QuickBudget:    180 * time.Second,
		ThoroughBudget: 25 * time.Minute,
	})
}

var c11Ignore = []string{`^\.`, `^@`}

func macRoman(s string) []byte {
	b, err := charmap.Macintosh.NewEncoder().String(s)
	if err != nil {
		return []byte(s)
	}
	return []byte(b)
}

func c11Files(root string) {
	w := func(p string, b []byte) {
		_ = os.MkdirAll(filepath.Dir(filepath.Join(root, p)), 0755)
		_ = os.WriteFile(filepath.Join(root, p), b, 0644)
	}
	w("a.txt", []byte("0123456789"))
	w("b c", []byte("abc"))
	w("été.txt", []byte("eteee"))
	w(".hidden", []byte("h"))
	w("@x", []byte("at"))
	w("q.sit", []byte("sitdata"))
	w(".info_q.sit", ref.NewInfoFork("q.sit", "SITD", "SIT!", "qc").Encode())
	w(".rsrc_q.sit", []byte("rsrc"))
	w("i.dat", []byte("imagebytes!"))
	w(".info_i.dat", ref.NewInfoFork("i.dat", "JPEG", "GKON", "").Encode()) // stored type differs from what the extension suggests
	w(c11Long, []byte("long name"))
	w("p.bin.incomplete", []byte("partia"))
	w(".info_p.bin", ref.NewInfoFork("p.bin", "BINA", "hDmp", "partial").Encode()) // the partial upload's stored information fork
	w("d/inner.txt", []byte("in"))
	w("dé/in2.txt", []byte("in2"))         // a folder whose listed name is not ASCII: everything below it is addressed through Mac Roman path items
	w("other/q.sit/keep.txt", []byte("k")) // a folder that has the name of a file: moving that file here must fail and change nothing
	_ = os.MkdirAll(filepath.Join(root, "e"), 0755)
	w("e/p.bin", []byte("namesake of the partial upload in the root"))
}

// model: the expected real tree, path -> kind/content
type c11Model struct {
	ent map[string]string // "<dir>", "-> target", or file content ("\x00info" for info forks: content opaque)
	// folder comment side-files that may or may not have followed a folder rename
	loose    map[string]bool
	comments map[string]string // entry path -> comment set through the protocol
}

func (m *c11Model) isDir(p string) bool  { return m.ent[p] == "<dir>" }
func (m *c11Model) exists(p string) bool { _, ok := m.ent[p]; return ok }

func sideFiles(p string) []string {
	d, b := filepath.Dir(p), filepath.Base(p)
	j := func(n string) string {
		if d == "." {
			return n
		}
		return d + "/" + n
	}
	return []string{j(".info_" + b), j(".rsrc_" + b), j(b + ".incomplete")}
}

func join(d, n string) string {
	if d == "" || d == "." {
		return n
	}
	return d + "/" + n
}

// relocate moves entry src (and everything below it, and its side files) to dst.
func (m *c11Model) relocate(src, dst string, folderRename bool) {
	srcSides, dstSides := sideFiles(src), sideFiles(dst)
	wasDir := m.isDir(src)
	moves := map[string]string{src: dst}
	for p := range m.ent {
		if strings.HasPrefix(p, src+"/") {
			moves[p] = dst + p[len(src):]
		}
	}
	for i, s := range srcSides {
		if m.exists(s) {
			if wasDir && folderRename {
				// unspecified: the folder's own side file may stay or follow
				m.loose[s] = true
				m.loose[dstSides[i]] = true
				delete(m.ent, s)
				continue
			}
			moves[s] = dstSides[i]
		}
	}
	vals := map[string]string{}
	for from, to := range moves {
		vals[to] = m.ent[from]
		delete(m.ent, from)
	}
	for to, v := range vals {
		m.ent[to] = v
	}
	if c, ok := m.comments[src]; ok {
		delete(m.comments, src)
		if !(wasDir && folderRename) {
			m.comments[dst] = c
		}
	}
}

func (m *c11Model) remove(p string) {
	for q := range m.ent {
		if q == p || strings.HasPrefix(q, p+"/") {
			delete(m.ent, q)
		}
	}
	for _, s := range sideFiles(p) {
		delete(m.ent, s)
	}
	delete(m.comments, p)
}

var c11IgnoreRE = []*regexp.Regexp{regexp.MustCompile(`^\.`), regexp.MustCompile(`^@`)}

func ignored(name string) bool {
	for _, re := range c11IgnoreRE {
		if re.MatchString(name) {
			return true
		}
	}
	return false
}

// visible: what the listing of dir must show: name (as listed) -> underlying path
func (m *c11Model) visible(dir string) map[string]string {
	out := map[string]string{}
	for p := range m.ent {
		if filepath.Dir(p) != map[bool]string{true: ".", false: dir}[dir == ""] {
			continue
		}
		name := filepath.Base(p)
		if ignored(name) {
			continue
		}
		if v := m.ent[p]; strings.HasPrefix(v, "-> $ROOT/") && !m.exists(strings.TrimPrefix(v, "-> $ROOT/")) {
			continue // an alias whose target is gone: whether it is listed is not specified
		}
		if m.ent[p] != "<dir>" { // a partial upload is listed under its final name
			name = strings.TrimSuffix(name, ".incomplete")
		}
		out[name] = p
	}
	return out
}

type c11World struct {
	wd   *world.World
	u    *world.Client
	m    *c11Model
	viol []explore.SchedV
}

func (x *c11World) fail(clause, detail string) {
	x.viol = append(x.viol, explore.SchedV{Signature: "C11/" + clause, Detail: detail})
}

func pathFields(dir string) []ref.Fld {
	if dir == "" || dir == "." {
		return nil
	}
	var items []string
	for _, s := range strings.Split(dir, "/") {
		items = append(items, string(macRoman(s)))
	}
	return []ref.Fld{ref.F(ref.FFilePath, ref.PathBytes(items...))}
}

func dirOf(p string) string {
	d := filepath.Dir(p)
	if d == "." {
		return ""
	}
	return d
}

func (x *c11World) req(t ref.Tx) *ref.Tx {
	id := x.u.Send(t)
	world.Settle(2 * time.Second)
	return x.u.Reply(id)
}

// dangling: p is an alias whose target no longer exists (such an entry is not listed; what requests on
// it do is not specified)
func (m *c11Model) dangling(p string) bool {
	v := m.ent[p]
	return strings.HasPrefix(v, "-> $ROOT/") && !m.exists(strings.TrimPrefix(v, "-> $ROOT/"))
}

// c11Long is a file name of 245 bytes: the file and its .info_ side file fit in a file name, "<name>.incomplete" does not.
var c11Long = strings.Repeat("n", 241) + ".txt"

func (x *c11World) apply(op string) bool {
	p := strings.Split(strings.ReplaceAll(op, "L245", c11Long), "|")
	m := x.m
	if len(p) > 1 && m.dangling(p[1]) {
		return false
	}
	switch p[0] {
	case "rename":
		src, newName := p[1], p[2]
		dst := join(dirOf(src), newName)
		if !m.exists(src) || m.exists(dst) || strings.HasPrefix(m.ent[src], "->") {
			return false
		}
		r := x.req(ref.Tx{Type: ref.TSetFileInfo, Fields: append(pathFields(dirOf(src)), ref.F(ref.FFileName, macRoman(filepath.Base(src))), ref.F(ref.FFileNewName, macRoman(newName)))})
		if r == nil || r.Err != 0 {
			x.fail("rename/request-failed", fmt.Sprintf("%s: %v", op, r))
		}
		m.relocate(src, dst, true)
	case "move":
		src, dir := p[1], p[2]
		dst := join(dir, filepath.Base(src))
		if !m.exists(src) || !m.isDir(dir) || m.exists(dst) || src == dir || strings.HasPrefix(dir, src+"/") || dirOf(src) == dir {
			return false
		}
		r := x.req(ref.Tx{Type: ref.TMoveFile, Fields: append(pathFields(dirOf(src)), ref.F(ref.FFileName, macRoman(filepath.Base(src))), ref.F(ref.FFileNewPath, pathFields(dir)[0].Data))})
		if r == nil || r.Err != 0 {
			x.fail("move/request-failed", fmt.Sprintf("%s: %v", op, r))
		}
		m.relocate(src, dst, false)
	case "movepartial":
		// moving a partial upload (listed under its final name) either carries the partial data and its forks along
		// or changes nothing
		src := p[1]
		if m.exists(src) || !m.exists(src+".incomplete") || !m.isDir(p[2]) {
			return false
		}
		r := x.req(ref.Tx{Type: ref.TMoveFile, Fields: append(pathFields(dirOf(src)), ref.F(ref.FFileName, macRoman(filepath.Base(src))), ref.F(ref.FFileNewPath, pathFields(p[2])[0].Data))})
		if r == nil {
			x.fail("move/not-answered", fmt.Sprintf("%s: a move of a listed partial upload got no reply at all", op))
		}
		if r != nil && r.Err == 0 {
			// there is no data file under the final name: the partial data and the forks are what travels
			dstSides := sideFiles(join(p[2], filepath.Base(src)))
			for i, sf := range sideFiles(src) {
				if v, ok := m.ent[sf]; ok {
					delete(m.ent, sf)
					m.ent[dstSides[i]] = v
				}
			}
		}
	case "movefail", "renamefail":
		// the destination name is taken by a folder: whatever the reply, nothing may change
		src := p[1]
		if !m.exists(src) || m.isDir(src) || strings.HasPrefix(m.ent[src], "->") {
			return false
		}
		var r *ref.Tx
		if p[0] == "movefail" {
			dst := join(p[2], filepath.Base(src))
			if !m.isDir(p[2]) || !m.isDir(dst) {
				return false
			}
			r = x.req(ref.Tx{Type: ref.TMoveFile, Fields: append(pathFields(dirOf(src)), ref.F(ref.FFileName, macRoman(filepath.Base(src))), ref.F(ref.FFileNewPath, pathFields(p[2])[0].Data))})
		} else {
			dst := join(dirOf(src), p[2])
			if !m.isDir(dst) {
				return false
			}
			r = x.req(ref.Tx{Type: ref.TSetFileInfo, Fields: append(pathFields(dirOf(src)), ref.F(ref.FFileName, macRoman(filepath.Base(src))), ref.F(ref.FFileNewName, macRoman(p[2])))})
		}
		if r != nil && r.Err == 0 {
			x.fail("refused-operation/acknowledged-although-destination-is-a-folder", fmt.Sprintf("%s: %v", op, r))
		}
	case "ontopartial":
		// the name is shown in the list for a partial upload ("p.bin" for p.bin.incomplete): a rename, move or new folder
		// that would put a second entry of that name into the list is refused, nothing changes
		name := p[3]
		var r *ref.Tx
		switch p[1] {
		case "rename":
			src := p[2]
			if !m.exists(src) || strings.HasPrefix(m.ent[src], "->") || m.exists(join(dirOf(src), name)) || !m.exists(join(dirOf(src), name)+".incomplete") {
				return false
			}
			r = x.req(ref.Tx{Type: ref.TSetFileInfo, Fields: append(pathFields(dirOf(src)), ref.F(ref.FFileName, macRoman(filepath.Base(src))), ref.F(ref.FFileNewName, macRoman(name)))})
		case "mkdir":
			if m.exists(name) || !m.exists(name+".incomplete") {
				return false
			}
			r = x.req(ref.Tx{Type: ref.TNewFolder, Fields: []ref.Fld{ref.F(ref.FFileName, macRoman(name))}})
		case "alias":
			// p[2] is a file in a folder, named like the partial upload in the root; its alias would land on that name
			src := p[2]
			if !m.exists(src) || filepath.Base(src) != name || m.exists(name) || !m.exists(name+".incomplete") || dirOf(src) == "" {
				return false
			}
			r = x.req(ref.Tx{Type: ref.TMakeFileAlias, Fields: append(pathFields(dirOf(src)), ref.F(ref.FFileName, macRoman(name)), ref.F(ref.FFileNewPath, []byte{0, 0}))})
		case "move":
			// p[2] is a file in a folder, named like the partial upload in the root
			src := p[2]
			if !m.exists(src) || filepath.Base(src) != name || m.exists(name) || !m.exists(name+".incomplete") || dirOf(src) == "" {
				return false
			}
			r = x.req(ref.Tx{Type: ref.TMoveFile, Fields: append(pathFields(dirOf(src)), ref.F(ref.FFileName, macRoman(name)), ref.F(ref.FFileNewPath, []byte{0, 0}))})
		}
		if r != nil && r.Err == 0 {
			x.fail("refused-operation/acknowledged-although-the-name-is-shown-for-a-partial-upload", fmt.Sprintf("%s: %v", op, r))
		}
	case "renamelong":
		// a new name that is fine on the wire (200 Mac Roman bytes) and too long for the file system once stored (400
		// bytes): the rename cannot be carried out, so it is refused and nothing changes
		src := p[1]
		if !m.exists(src) || strings.HasPrefix(m.ent[src], "->") {
			return false
		}
		r := x.req(ref.Tx{Type: ref.TSetFileInfo, Fields: append(pathFields(dirOf(src)), ref.F(ref.FFileName, macRoman(filepath.Base(src))), ref.F(ref.FFileNewName, bytes.Repeat([]byte{0x8e}, 200)))})
		if r == nil {
			x.fail("rename/not-answered", op)
		} else if r.Err == 0 {
			x.fail("refused-operation/acknowledged-although-nothing-was-renamed", fmt.Sprintf("%s: %v", op, r))
		}
	case "renamefailc":
		// a set-file-info request with a comment and a new name that is taken: refused, and nothing of it is carried out
		src, dst := p[1], join(dirOf(p[1]), p[2])
		if !m.exists(src) || !m.exists(dst) || src == dst || strings.HasPrefix(m.ent[src], "->") {
			return false
		}
		r := x.req(ref.Tx{Type: ref.TSetFileInfo, Fields: append(pathFields(dirOf(src)), ref.F(ref.FFileName, macRoman(filepath.Base(src))), ref.F(ref.FFileNewName, macRoman(p[2])), ref.FS(ref.FFileComment, "half done"))})
		if r != nil && r.Err == 0 {
			x.fail("refused-operation/acknowledged-although-the-new-name-is-taken", fmt.Sprintf("%s: %v", op, r))
		}
	case "uncomment":
		src := p[1]
		if !m.exists(src) || strings.HasPrefix(m.ent[src], "->") {
			return false
		}
		if _, has := m.comments[src]; !has {
			return false
		}
		r := x.req(ref.Tx{Type: ref.TSetFileInfo, Fields: append(pathFields(dirOf(src)), ref.F(ref.FFileName, macRoman(filepath.Base(src))), ref.F(ref.FFileComment, []byte{}))})
		if r == nil || r.Err != 0 {
			x.fail("comment/request-failed", fmt.Sprintf("%s: %v", op, r))
		}
		m.ent[sideFiles(src)[0]] = "\x00info"
		m.comments[src] = ""
	case "del":
		src := p[1]
		if !m.exists(src) && !m.exists(src+".incomplete") { // a partial upload is listed, and deleted, under its final name
			return false
		}
		r := x.req(ref.Tx{Type: ref.TDeleteFile, Fields: append(pathFields(dirOf(src)), ref.F(ref.FFileName, macRoman(filepath.Base(src))))})
		if r == nil || r.Err != 0 {
			x.fail("delete/request-failed", fmt.Sprintf("%s: %v", op, r))
		}
		m.remove(src)
	case "mkdir":
		dst := p[1]
		if dirOf(dst) != "" && !m.isDir(dirOf(dst)) {
			return false
		}
		r := x.req(ref.Tx{Type: ref.TNewFolder, Fields: append(pathFields(dirOf(dst)), ref.F(ref.FFileName, macRoman(filepath.Base(dst))))})
		if m.exists(dst) {
			if r == nil || r.Err == 0 {
				x.fail("mkdir/existing-name-not-refused", fmt.Sprintf("%s: %v", op, r))
			}
		} else if b := filepath.Base(dst); (strings.HasSuffix(b, ".incomplete") || strings.HasPrefix(b, ".info_") || strings.HasPrefix(b, ".rsrc_")) && r != nil && r.Err != 0 {
			// a name the server uses for fork side files and partial uploads: refusing it (nothing changes) is fine
		} else {
			if r == nil || r.Err != 0 {
				x.fail("mkdir/request-failed", fmt.Sprintf("%s: %v", op, r))
			}
			m.ent[dst] = "<dir>"
		}
	case "alias":
		src, dir := p[1], p[2]
		dst := join(dir, filepath.Base(src))
		if !m.exists(src) || !m.isDir(dir) || m.exists(dst) || dirOf(src) == dir {
			return false
		}
		r := x.req(ref.Tx{Type: ref.TMakeFileAlias, Fields: append(pathFields(dirOf(src)), ref.F(ref.FFileName, macRoman(filepath.Base(src))), ref.F(ref.FFileNewPath, pathFields(dir)[0].Data))})
		if r == nil || r.Err != 0 {
			x.fail("alias/request-failed", fmt.Sprintf("%s: %v", op, r))
		}
		m.ent[dst] = "-> $ROOT/" + src
	case "comment":
		src := p[1]
		if !m.exists(src) || strings.HasPrefix(m.ent[src], "->") {
			return false
		}
		r := x.req(ref.Tx{Type: ref.TSetFileInfo, Fields: append(pathFields(dirOf(src)), ref.F(ref.FFileName, macRoman(filepath.Base(src))), ref.FS(ref.FFileComment, "note on "+filepath.Base(src)))})
		if r == nil || r.Err != 0 {
			x.fail("comment/request-failed", fmt.Sprintf("%s: %v", op, r))
		}
		m.ent[sideFiles(src)[0]] = "\x00info"
		m.comments[src] = "note on " + filepath.Base(src)
	default:
		panic(op)
	}
	return true
}

func (x *c11World) check() string {
	m := x.m
	root := x.wd.FileRoot
	// (d) the real tree equals the model's
	real := world.Tree(root)
	var rl, ml []string
	for p, v := range real {
		if strings.HasPrefix(filepath.Base(p), ".info_") {
			v = "\x00info"
		}
		if strings.HasPrefix(v, "-> ") {
			v = strings.Replace(v, root, "$ROOT", 1)
		}
		if m.loose[p] {
			continue
		}
		rl = append(rl, fmt.Sprintf("%s=%x", p, v))
	}
	for p, v := range m.ent {
		if strings.HasPrefix(filepath.Base(p), ".info_") {
			v = "\x00info"
		}
		ml = append(ml, fmt.Sprintf("%s=%x", p, v))
	}
	sort.Strings(rl)
	sort.Strings(ml)
	if strings.Join(rl, ";") != strings.Join(ml, ";") {
		x.fail("tree/real-tree-differs-from-namespace-model", diffLines(strings.Join(ml, "\n"), strings.Join(rl, "\n")))
	}
	// (a) listing of every folder, (b)(c) addressability and agreement of views
	dirs := []string{""}
	for p, v := range m.ent {
		if v == "<dir>" && !ignored(filepath.Base(p)) {
			dirs = append(dirs, p)
		}
	}
	sort.Strings(dirs)
	for _, d := range dirs {
		r := x.req(ref.Tx{Type: ref.TGetFileNameList, Fields: pathFields(d)})
		if r == nil || r.Err != 0 {
			x.fail("list/request-failed", fmt.Sprintf("folder %q: %v", d, r))
			continue
		}
		want := m.visible(d)
		got := map[string]ref.FileListEntry{}
		for _, fb := range r.GetAll(ref.FFileNameWithInfo) {
			e, err := ref.DecodeFileListEntry(fb)
			if err != nil {
				x.fail("list/entry-undecodable", err.Error())
				continue
			}
			dec, _ := charmap.Macintosh.NewDecoder().String(e.Name)
			if _, dup := got[dec]; dup {
				x.fail("list/entry-listed-twice", fmt.Sprintf("folder %q lists %q twice", d, dec))
			}
			got[dec] = e
		}
		var gn, wn []string
		for n := range got {
			gn = append(gn, n)
		}
		for n := range want {
			wn = append(wn, n)
		}
		sort.Strings(gn)
		sort.Strings(wn)
		if strings.Join(gn, "|") != strings.Join(wn, "|") {
			x.fail("list/listing-differs-from-visible-entries", fmt.Sprintf("folder %q lists %q, model's visible entries %q", d, gn, wn))
			continue
		}
		for name, e := range got {
			under := want[name]
			if strings.HasSuffix(under, ".incomplete") {
				// a partial upload is shown but need not be addressable; when get-info does answer for it (a file without
				// resource fork), the size it shows agrees with the list and with the bytes on disk
				final := strings.TrimSuffix(under, ".incomplete")
				if inf := x.req(ref.Tx{Type: ref.TGetFileInfo, Fields: append(pathFields(d), ref.FS(ref.FFileName, e.Name))}); m.ent[under] != "<dir>" && inf != nil && inf.Err == 0 && !m.exists(sideFiles(final)[1]) && !m.exists(final) {
					is, _ := inf.Get(ref.FFileSize)
					if len(is) != 4 || int(binary.BigEndian.Uint32(is)) != len(m.ent[under]) || int(e.Size) != len(m.ent[under]) {
						x.fail("views/size-disagrees-for-a-partial-upload", fmt.Sprintf("%q: list %d, info %x, bytes on disk %d", name, e.Size, is, len(m.ent[under])))
					}
				}
				continue
			}
			kind := m.ent[under]
			target := under
			if strings.HasPrefix(kind, "-> $ROOT/") {
				target = strings.TrimPrefix(kind, "-> $ROOT/")
				kind = m.ent[target]
			}
			isDir := kind == "<dir>"
			// get-info by the listed bytes
			inf := x.req(ref.Tx{Type: ref.TGetFileInfo, Fields: append(pathFields(d), ref.FS(ref.FFileName, e.Name))})
			if inf == nil || inf.Err != 0 || len(inf.Fields) == 0 {
				x.fail("address/listed-entry-not-addressable-for-info", fmt.Sprintf("folder %q entry %q: %v", d, name, inf))
				continue
			}
			if n, _ := inf.Get(ref.FFileName); string(n) != e.Name {
				x.fail("address/info-names-another-entry", fmt.Sprintf("asked for %q, info says %q", e.Name, n))
			}
			ft, _ := inf.Get(ref.FFileType)
			if isDir {
				if e.Type != "fldr" || string(ft) != "fldr" {
					x.fail("views/folder-type-disagrees", fmt.Sprintf("%q: list type %q, info type %q", name, e.Type, ft))
				}
				n := 0
				for range m.visible(join(d, filepath.Base(under))) {
					n++
				}
				if strings.HasPrefix(m.ent[under], "->") {
					n = len(m.visible(target))
				}
				dangling := 0
				childDir := join(d, filepath.Base(under))
				if strings.HasPrefix(m.ent[under], "->") {
					childDir = target
				}
				for q := range m.ent {
					if dirOf(q) == childDir && m.dangling(q) {
						dangling++
					}
				}
				if int(e.Size) < n || int(e.Size) > n+dangling {
					x.fail("views/folder-item-count-wrong", fmt.Sprintf("%q: listed count %d, visible children %d", name, e.Size, n))
				}
				if c, ok := m.comments[under]; ok && fieldStr(inf, ref.FFileComment) != c {
					x.fail("views/folder-comment-lost", fmt.Sprintf("%q: comment %q, set %q", name, fieldStr(inf, ref.FFileComment), c))
				}
				continue
			}
			hasRsrc := m.exists(sideFiles(target)[1])
			onDisk := len(m.ent[target])
			if !strings.HasPrefix(m.ent[under], "->") {
				if c, ok := m.comments[under]; ok && fieldStr(inf, ref.FFileComment) != c {
					x.fail("views/file-comment-lost", fmt.Sprintf("%q: comment %q, set %q", name, fieldStr(inf, ref.FFileComment), c))
				}
			}
			dl := x.req(ref.Tx{Type: ref.TDownloadFile, Fields: append(pathFields(d), ref.FS(ref.FFileName, e.Name))})
			if dl == nil || dl.Err != 0 {
				x.fail("address/listed-file-not-addressable-for-download", fmt.Sprintf("folder %q entry %q: %v", d, name, dl))
				continue
			}
			if !hasRsrc && !strings.HasPrefix(m.ent[under], "->") {
				is, _ := inf.Get(ref.FFileSize)
				ds, _ := dl.Get(ref.FFileSize)
				if len(is) != 4 || len(ds) != 4 || int(binary.BigEndian.Uint32(is)) != onDisk || int(binary.BigEndian.Uint32(ds)) != onDisk || int(e.Size) != onDisk {
					x.fail("views/size-disagrees", fmt.Sprintf("%q: list %d, info %x, download reply %x, bytes on disk %d", name, e.Size, is, ds, onDisk))
				}
				if string(ft) != e.Type {
					x.fail("views/type-disagrees", fmt.Sprintf("%q: list type %q, info type %q", name, e.Type, ft))
				}
			}
		}
	}
	return strings.Join(rl, ";")
}

func c11Exec(hist []string) (res explore.SeqResult) {
	s := seq(func() {
		wd := world.New(world.Cfg{IgnoreFiles: c11Ignore, Files: c11Files,
			Accounts: []world.Acct{{Login: "guest", Name: "Guest"}, {Login: "u", Name: "u", Password: "pw", Access: world.AllAccess}}})
		defer wd.Close()
		x := &c11World{wd: wd, m: &c11Model{ent: map[string]string{}, loose: map[string]bool{}, comments: map[string]string{"q.sit": "qc"}}}
		for p, v := range world.Tree(wd.FileRoot) {
			x.m.ent[p] = v
		}
		var r *ref.Tx
		x.u, r = wd.Connect("10.0.0.1:1001", "u", "pw", "u")
		if r == nil || r.Err != 0 {
			res.Violations = append(res.Violations, explore.SchedV{Signature: "C11/setup", Detail: "login failed"})
			return
		}
		for _, op := range hist {
			if !x.apply(op) {
				res.Skip = true
				return
			}
		}
		res.Canon = x.check()
		res.Violations = x.viol
	})
	for _, p := range s.Panics() {
		res.Violations = append(res.Violations, explore.SchedV{Signature: "C11/panic/" + vrt.PanicSite(p), Detail: p})
	}
	return res
}

func c11Alphabet() []string {
	var a []string
	files := []string{"a.txt", "b c", "été.txt", "q.sit", "d/inner.txt", "i.dat"}
	for _, f := range files {
		a = append(a, "rename|"+f+"|n1.txt", "rename|"+f+"|zé", "move|"+f+"|d", "move|"+f+"|e", "del|"+f, "comment|"+f)
	}
	for _, d := range []string{"d", "e"} {
		a = append(a, "rename|"+d+"|dd", "move|"+d+"|e", "move|"+d+"|d", "del|"+d, "comment|"+d)
	}
	a = append(a, "rename|a.txt|my.incomplete.txt", "mkdir|x.incomplete", "rename|e/a.txt|pic.jpg", "comment|my.incomplete.txt", "del|my.incomplete.txt")
	a = append(a, "movepartial|p.bin|d", "movepartial|p.bin|e")
	a = append(a, "del|p.bin", "mkdir|dé/new", "mkdir|dé/in2.txt", "del|dé/in2.txt", "rename|dé/in2.txt|r2.txt", "move|a.txt|dé", "move|dé/in2.txt|e", "comment|dé/in2.txt", "alias|a.txt|dé", "rename|dé|dd", "move|dé|e", "del|dé", "mkdir|zé/sub")
	a = append(a, "mkdir|new", "mkdir|a.txt", "mkdir|d", "mkdir|d/new", "mkdir|zé", "alias|a.txt|e", "alias|d|e", "alias|q.sit|d",
		"rename|n1.txt|a.zip", "rename|a.txt|a.zip", "rename|i.dat|i.txt",
		"movefail|q.sit|other", "comment|L245", "move|L245|e", "del|L245", "rename|L245|short.txt", "ontopartial|alias|e/p.bin|p.bin", "renamelong|d", "renamelong|a.txt", "ontopartial|rename|i.dat|p.bin", "ontopartial|mkdir||p.bin", "rename|e/a.txt|p.bin", "ontopartial|move|e/p.bin|p.bin", "renamefailc|a.txt|q.sit", "renamefailc|d|e", "renamefail|q.sit|d", "renamefail|a.txt|e", "renamefail|i.dat|d", "uncomment|q.sit", "uncomment|a.txt", "uncomment|d", "del|n1.txt", "move|n1.txt|e", "comment|n1.txt", "del|dd", "rename|dd|d", "mkdir|dd", "comment|e/a.txt", "del|e/a.txt", "rename|e/a.txt|r.txt")
	return a
}

func runC11(w *explore.Worker) {
	depth := 2
	if w.Thorough {
		depth = 3
	}
	explore.ExploreHistories(w, explore.SeqConfig{Name: "C11files", Alphabet: c11Alphabet(), Depth: depth, Exec: c11Exec})
}

func replayC11(w *explore.Worker, raw json.RawMessage) {
	var r explore.SeqReplay
	if err := json.Unmarshal(raw, &r); err != nil {
		w.Broken("bad replay: %v", err)
		return
	}
	res := c11Exec(r.History)
	for _, v := range res.Violations {
		w.Violation(v.Signature, v.Detail, 0, r)
	}
}
