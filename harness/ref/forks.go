package ref

import (
	"bytes"
	"encoding/binary"
)

// InfoFork is the information fork of a flattened file object (protocol document, "Flattened File
// Object" / "Information fork"): platform, type, creator, flags, platform flags, 32 reserved bytes,
// create date, modify date, name script, name size, name, comment size, comment.
type InfoFork struct {
	Platform      [4]byte
	Type          [4]byte
	Creator       [4]byte
	Flags         [4]byte
	PlatformFlags [4]byte
	Reserved      [32]byte
	CreateDate    [8]byte
	ModifyDate    [8]byte
	NameScript    uint16
	Name          []byte
	Comment       []byte
	NoCommentSize bool // some clients omit the comment size when the comment is empty
}

func (f InfoFork) Encode() []byte {
	var b bytes.Buffer
	b.Write(f.Platform[:])
	b.Write(f.Type[:])
	b.Write(f.Creator[:])
	b.Write(f.Flags[:])
	b.Write(f.PlatformFlags[:])
	b.Write(f.Reserved[:])
	b.Write(f.CreateDate[:])
	b.Write(f.ModifyDate[:])
	_ = binary.Write(&b, binary.BigEndian, f.NameScript)
	_ = binary.Write(&b, binary.BigEndian, uint16(len(f.Name)))
	b.Write(f.Name)
	if !(f.NoCommentSize && len(f.Comment) == 0) {
		_ = binary.Write(&b, binary.BigEndian, uint16(len(f.Comment)))
		b.Write(f.Comment)
	}
	return b.Bytes()
}

func Sig(s string) [4]byte { var a [4]byte; copy(a[:], s); return a }

// NewInfoFork returns an information fork as a Macintosh client would send it.
func NewInfoFork(name, typ, creator, comment string) InfoFork {
	return InfoFork{Platform: Sig("AMAC"), Type: Sig(typ), Creator: Sig(creator), PlatformFlags: [4]byte{0, 0, 1, 0},
		CreateDate: [8]byte{7, 0xd0, 0, 0, 0, 0, 0, 1}, ModifyDate: [8]byte{7, 0xd0, 0, 0, 0, 0, 0, 2}, Name: []byte(name), Comment: []byte(comment)}
}
