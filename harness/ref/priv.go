package ref

// Privilege numbering of the Hotline access bitmap, written from the protocol document
// (docs/HLProtocol.pages.pdf, "Access Privileges"): privilege i is bit i counted from the most
// significant bit of the first byte. The document lists "Send Private Message" as 19; every
// shipped client and server uses 40 for it (19 is unused), which is what Mobius documents too.
// Key is the name under which Mobius' account files spell the privilege.
type PrivInfo struct {
	Bit int
	Key string // account-file key
	Doc string // protocol document wording
}

var Privs = []PrivInfo{
	{0, "DeleteFile", "Delete File"},
	{1, "UploadFile", "Upload File"},
	{2, "DownloadFile", "Download File"},
	{3, "RenameFile", "Rename File"},
	{4, "MoveFile", "Move File"},
	{5, "CreateFolder", "Create Folder"},
	{6, "DeleteFolder", "Delete Folder"},
	{7, "RenameFolder", "Rename Folder"},
	{8, "MoveFolder", "Move Folder"},
	{9, "ReadChat", "Read Chat"},
	{10, "SendChat", "Send Chat"},
	{11, "OpenChat", "Open Chat"},
	{12, "CloseChat", "Close Chat"},
	{13, "ShowInList", "Show in List"},
	{14, "CreateUser", "Create User"},
	{15, "DeleteUser", "Delete User"},
	{16, "OpenUser", "Open User"},
	{17, "ModifyUser", "Modify User"},
	{18, "ChangeOwnPass", "Change Own Password"},
	{20, "NewsReadArt", "News Read Article"},
	{21, "NewsPostArt", "News Post Article"},
	{22, "DisconnectUser", "Disconnect User"},
	{23, "CannotBeDisconnected", "Cannot be Disconnected"},
	{24, "GetClientInfo", "Get Client Info"},
	{25, "UploadAnywhere", "Upload Anywhere"},
	{26, "AnyName", "Any Name"},
	{27, "NoAgreement", "No Agreement"},
	{28, "SetFileComment", "Set File Comment"},
	{29, "SetFolderComment", "Set Folder Comment"},
	{30, "ViewDropBoxes", "View Drop Boxes"},
	{31, "MakeAlias", "Make Alias"},
	{32, "Broadcast", "Broadcast"},
	{33, "NewsDeleteArt", "News Delete Article"},
	{34, "NewsCreateCat", "News Create Category"},
	{35, "NewsDeleteCat", "News Delete Category"},
	{36, "NewsCreateFldr", "News Create Folder"},
	{37, "NewsDeleteFldr", "News Delete Folder"},
	{38, "UploadFolder", "Upload Folder"},
	{39, "DownloadFolder", "Download Folder"},
	{40, "SendPrivMsg", "Send Private Message"},
}

// Privilege numbers used by the checks.
const (
	PDeleteFile       = 0
	PUploadFile       = 1
	PDownloadFile     = 2
	PRenameFile       = 3
	PMoveFile         = 4
	PCreateFolder     = 5
	PDeleteFolder     = 6
	PRenameFolder     = 7
	PMoveFolder       = 8
	PReadChat         = 9
	PSendChat         = 10
	POpenChat         = 11
	PCreateUser       = 14
	PDeleteUser       = 15
	POpenUser         = 16
	PModifyUser       = 17
	PNewsReadArt      = 20
	PNewsPostArt      = 21
	PDisconUser       = 22
	PCannotBeDiscon   = 23
	PGetClientInfo    = 24
	PUploadAnywhere   = 25
	PAnyName          = 26
	PNoAgreement      = 27
	PSetFileComment   = 28
	PSetFolderComment = 29
	PViewDropBoxes    = 30
	PMakeAlias        = 31
	PBroadcast        = 32
	PNewsDeleteArt    = 33
	PNewsCreateCat    = 34
	PNewsDeleteCat    = 35
	PNewsCreateFldr   = 36
	PNewsDeleteFldr   = 37
	PUploadFolder     = 38
	PDownloadFolder   = 39
	PSendPrivMsg      = 40
)

// DefinedBits is the set of the 40 defined privilege numbers.
var DefinedBits = func() map[int]bool {
	m := map[int]bool{}
	for _, p := range Privs {
		m[p.Bit] = true
	}
	return m
}()

// DefinedMask is the bitmap with exactly the defined privileges set.
var DefinedMask = func() [8]byte {
	var b [8]byte
	for _, p := range Privs {
		b[p.Bit/8] |= 0x80 >> uint(p.Bit%8)
	}
	return b
}()

func BitSet(b [8]byte, i int) bool { return b[i/8]&(0x80>>uint(i%8)) != 0 }

func And(a, b [8]byte) [8]byte {
	var o [8]byte
	for i := range o {
		o[i] = a[i] & b[i]
	}
	return o
}

// Subset reports a ⊆ b.
func Subset(a, b [8]byte) bool {
	for i := range a {
		if a[i]&^b[i] != 0 {
			return false
		}
	}
	return true
}
