package ref

import (
	"encoding/binary"
	"fmt"
)

// NewsListEntry is one article of a "news article list data" field (321).
type NewsListEntry struct {
	ID       uint32
	Date     [8]byte
	Parent   uint32
	Flags    uint32
	Title    string
	Poster   string
	Flavors  []string
	ArtSizes []uint16
}

// NewsList is a decoded field 321: id, article count, name, description, then the articles.
type NewsList struct {
	ID          uint32
	Count       uint32
	Name        string
	Description string
	Articles    []NewsListEntry
}

// DecodeNewsList decodes field 321 strictly: every length prefix must be backed by bytes and the
// data must be consumed exactly.
func DecodeNewsList(b []byte) (NewsList, error) {
	var l NewsList
	p := 0
	need := func(n int, what string) error {
		if p+n > len(b) {
			return fmt.Errorf("%s: need %d bytes at offset %d, have %d", what, n, p, len(b)-p)
		}
		return nil
	}
	if err := need(10, "list header"); err != nil {
		return l, err
	}
	l.ID = binary.BigEndian.Uint32(b[0:])
	l.Count = binary.BigEndian.Uint32(b[4:])
	p = 8
	readStr := func(what string) (string, error) {
		if err := need(1, what+" length"); err != nil {
			return "", err
		}
		n := int(b[p])
		p++
		if err := need(n, what); err != nil {
			return "", err
		}
		s := string(b[p : p+n])
		p += n
		return s, nil
	}
	var err error
	if l.Name, err = readStr("name"); err != nil {
		return l, err
	}
	if l.Description, err = readStr("description"); err != nil {
		return l, err
	}
	for i := uint32(0); i < l.Count; i++ {
		var e NewsListEntry
		if err := need(22, fmt.Sprintf("article %d header", i)); err != nil {
			return l, err
		}
		e.ID = binary.BigEndian.Uint32(b[p:])
		copy(e.Date[:], b[p+4:p+12])
		e.Parent = binary.BigEndian.Uint32(b[p+12:])
		e.Flags = binary.BigEndian.Uint32(b[p+16:])
		fc := int(binary.BigEndian.Uint16(b[p+20:]))
		p += 22
		if e.Title, err = readStr(fmt.Sprintf("article %d title", i)); err != nil {
			return l, err
		}
		if e.Poster, err = readStr(fmt.Sprintf("article %d poster", i)); err != nil {
			return l, err
		}
		for f := 0; f < fc; f++ {
			fl, err := readStr(fmt.Sprintf("article %d flavor", i))
			if err != nil {
				return l, err
			}
			if err := need(2, "article size"); err != nil {
				return l, err
			}
			e.Flavors = append(e.Flavors, fl)
			e.ArtSizes = append(e.ArtSizes, binary.BigEndian.Uint16(b[p:]))
			p += 2
		}
		l.Articles = append(l.Articles, e)
	}
	if p != len(b) {
		return l, fmt.Errorf("%d trailing bytes after %d articles", len(b)-p, l.Count)
	}
	return l, nil
}

// EncodeNewsListEntry is the reference encoding of one list entry.
func EncodeNewsListEntry(e NewsListEntry) []byte {
	var b []byte
	b = binary.BigEndian.AppendUint32(b, e.ID)
	b = append(b, e.Date[:]...)
	b = binary.BigEndian.AppendUint32(b, e.Parent)
	b = binary.BigEndian.AppendUint32(b, e.Flags)
	b = binary.BigEndian.AppendUint16(b, uint16(len(e.Flavors)))
	b = append(b, byte(len(e.Title)))
	b = append(b, e.Title...)
	b = append(b, byte(len(e.Poster)))
	b = append(b, e.Poster...)
	for i, f := range e.Flavors {
		b = append(b, byte(len(f)))
		b = append(b, f...)
		b = binary.BigEndian.AppendUint16(b, e.ArtSizes[i])
	}
	return b
}

// NewsCatEntry is a decoded "news category list data 1.5" field (323).
type NewsCatEntry struct {
	Type  uint16 // 2 bundle, 3 category
	Count uint16
	GUID  [16]byte
	AddSN uint32
	DelSN uint32
	Name  string
}

func DecodeNewsCat(b []byte) (NewsCatEntry, error) {
	var e NewsCatEntry
	if len(b) < 5 {
		return e, fmt.Errorf("category entry too short: %d", len(b))
	}
	e.Type = binary.BigEndian.Uint16(b[0:])
	e.Count = binary.BigEndian.Uint16(b[2:])
	p := 4
	if e.Type == 3 {
		if len(b) < 4+24+1 {
			return e, fmt.Errorf("category entry too short for guid/serials: %d", len(b))
		}
		copy(e.GUID[:], b[4:20])
		e.AddSN = binary.BigEndian.Uint32(b[20:])
		e.DelSN = binary.BigEndian.Uint32(b[24:])
		p = 28
	} else if e.Type != 2 {
		return e, fmt.Errorf("unknown news item type %d", e.Type)
	}
	n := int(b[p])
	p++
	if p+n != len(b) {
		return e, fmt.Errorf("name length %d but %d bytes follow", n, len(b)-p)
	}
	e.Name = string(b[p:])
	return e, nil
}

func EncodeNewsCat(e NewsCatEntry) []byte {
	var b []byte
	b = binary.BigEndian.AppendUint16(b, e.Type)
	b = binary.BigEndian.AppendUint16(b, e.Count)
	if e.Type == 3 {
		b = append(b, e.GUID[:]...)
		b = binary.BigEndian.AppendUint32(b, e.AddSN)
		b = binary.BigEndian.AppendUint32(b, e.DelSN)
	}
	b = append(b, byte(len(e.Name)))
	b = append(b, e.Name...)
	return b
}
