package ref

import (
	"bytes"
	"encoding/binary"
	"fmt"
)

// Preamble is the 16-byte greeting of a transfer connection: "HTXF", reference number, data size, reserved.
func Preamble(refnum []byte, size uint32) []byte {
	b := []byte("HTXF")
	b = append(b, refnum...)
	b = binary.BigEndian.AppendUint32(b, size)
	b = append(b, 0, 0, 0, 0)
	return b
}

func forkHeader(typ string, size uint32) []byte {
	b := []byte(typ)
	b = append(b, 0, 0, 0, 0, 0, 0, 0, 0)
	return binary.BigEndian.AppendUint32(b, size)
}

// FlatHeader is the 24-byte "FILP" header: format, version 1, 16 reserved bytes, fork count.
func FlatHeader(forks uint16) []byte {
	b := []byte("FILP")
	b = append(b, 0, 1)
	b = append(b, make([]byte, 16)...)
	return binary.BigEndian.AppendUint16(b, forks)
}

// FlatFile encodes a flattened file object as a client sends it on upload: header, INFO fork,
// DATA fork and, if rsrc is non-nil, the MACR fork.
func FlatFile(info InfoFork, data, rsrc []byte) []byte {
	forks := uint16(2)
	if rsrc != nil {
		forks = 3
	}
	ib := info.Encode()
	var b bytes.Buffer
	b.Write(FlatHeader(forks))
	b.Write(forkHeader("INFO", uint32(len(ib))))
	b.Write(ib)
	b.Write(forkHeader("DATA", uint32(len(data))))
	b.Write(data)
	if rsrc != nil {
		b.Write(forkHeader("MACR", uint32(len(rsrc))))
		b.Write(rsrc)
	}
	return b.Bytes()
}

// FlatFileHeaderLen is the number of bytes of FlatFile(info, data, ...) that precede the data.
func FlatFileHeaderLen(info InfoFork) int { return 24 + 16 + len(info.Encode()) + 16 }

// ResumeData encodes "RFLT" resume data for the data fork offset (and optionally the resource fork).
func ResumeData(dataOffset uint32, rsrcOffset *uint32) []byte {
	b := []byte("RFLT")
	b = append(b, 0, 1)
	b = append(b, make([]byte, 34)...)
	n := uint16(1)
	if rsrcOffset != nil {
		n = 2
	}
	b = binary.BigEndian.AppendUint16(b, n)
	b = append(b, "DATA"...)
	b = binary.BigEndian.AppendUint32(b, dataOffset)
	b = append(b, make([]byte, 8)...)
	if rsrcOffset != nil {
		b = append(b, "MACR"...)
		b = binary.BigEndian.AppendUint32(b, *rsrcOffset)
		b = append(b, make([]byte, 8)...)
	}
	return b
}

// DecodeResumeData returns the data-fork offset of RFLT resume data.
func DecodeResumeData(b []byte) (uint32, error) {
	if len(b) < 42 || string(b[:4]) != "RFLT" {
		return 0, fmt.Errorf("not RFLT resume data: %x", b)
	}
	n := int(binary.BigEndian.Uint16(b[40:42]))
	if len(b) != 42+16*n {
		return 0, fmt.Errorf("resume data: fork count %d but %d bytes", n, len(b))
	}
	for i := 0; i < n; i++ {
		e := b[42+16*i:]
		if string(e[:4]) == "DATA" {
			return binary.BigEndian.Uint32(e[4:8]), nil
		}
	}
	return 0, fmt.Errorf("resume data without DATA fork")
}

// ParsedFlat is what a client extracts from a download stream.
type ParsedFlat struct {
	Forks       uint16
	InfoSize    uint32
	Info        []byte // raw information fork
	Name        string
	Comment     string
	TypeSig     string
	Creator     string
	DataDecl    uint32 // size declared in the DATA fork header
	HeaderLen   int    // bytes up to and including the DATA fork header
	Rest        []byte // everything after the DATA fork header
	InfoProblem string
}

// ParseFlat parses the start of a flattened file object the way a client does: FILP header, INFO
// fork header, an information fork of the announced size whose own name/comment lengths must add up
// to that size, and the DATA fork header.
func ParseFlat(b []byte) (ParsedFlat, error) {
	var p ParsedFlat
	if len(b) < 40 {
		return p, fmt.Errorf("stream too short for FILP and INFO headers: %d bytes", len(b))
	}
	if string(b[:4]) != "FILP" || b[4] != 0 || b[5] != 1 {
		return p, fmt.Errorf("bad FILP header %x", b[:24])
	}
	p.Forks = binary.BigEndian.Uint16(b[22:24])
	if string(b[24:28]) != "INFO" {
		return p, fmt.Errorf("INFO fork header expected, got %q", b[24:28])
	}
	p.InfoSize = binary.BigEndian.Uint32(b[36:40])
	end := 40 + int(p.InfoSize)
	if end+16 > len(b) {
		return p, fmt.Errorf("information fork of announced size %d does not fit the stream (%d bytes)", p.InfoSize, len(b))
	}
	p.Info = b[40:end]
	if len(p.Info) < 72 {
		return p, fmt.Errorf("information fork of %d bytes is shorter than its fixed part", len(p.Info))
	}
	p.TypeSig = string(p.Info[4:8])
	p.Creator = string(p.Info[8:12])
	nl := int(binary.BigEndian.Uint16(p.Info[70:72]))
	if 72+nl > len(p.Info) {
		p.InfoProblem = fmt.Sprintf("name length %d exceeds the information fork (%d bytes)", nl, len(p.Info))
	} else {
		p.Name = string(p.Info[72 : 72+nl])
		rest := p.Info[72+nl:]
		switch {
		case len(rest) == 0:
		case len(rest) < 2:
			p.InfoProblem = "dangling byte after the name"
		default:
			cl := int(binary.BigEndian.Uint16(rest[:2]))
			if 2+cl != len(rest) {
				p.InfoProblem = fmt.Sprintf("INFO size %d but fixed part 72 + name %d + comment size 2 + comment %d = %d", p.InfoSize, nl, cl, 74+nl+cl)
			} else {
				p.Comment = string(rest[2:])
			}
		}
	}
	if string(b[end:end+4]) != "DATA" {
		return p, fmt.Errorf("DATA fork header expected after the information fork (announced INFO size %d), got %q", p.InfoSize, b[end:end+4])
	}
	p.DataDecl = binary.BigEndian.Uint32(b[end+12 : end+16])
	p.HeaderLen = end + 16
	p.Rest = b[p.HeaderLen:]
	return p, nil
}

// ItemHeader encodes a folder-upload item header: data size, is-folder, path item count, path items.
func ItemHeader(isFolder bool, segments ...string) []byte {
	var path []byte
	for _, s := range segments {
		path = append(path, 0, 0, byte(len(s)))
		path = append(path, s...)
	}
	b := binary.BigEndian.AppendUint16(nil, uint16(len(path)+4))
	if isFolder {
		b = append(b, 0, 1)
	} else {
		b = append(b, 0, 0)
	}
	b = binary.BigEndian.AppendUint16(b, uint16(len(segments)))
	return append(b, path...)
}

// FolderItem is a decoded folder-download item header.
type FolderItem struct {
	IsFolder bool
	Path     []string
	Len      int // total bytes of the header on the wire
}

// DecodeFolderItem decodes a folder-download item header at the start of b: size (2), type (2),
// then the path: item count (2) and per item two zero bytes, a length byte and the name.
func DecodeFolderItem(b []byte) (FolderItem, error) {
	var it FolderItem
	if len(b) < 6 {
		return it, fmt.Errorf("item header needs 6 bytes, have %d", len(b))
	}
	size := int(binary.BigEndian.Uint16(b[0:2]))
	if 2+size > len(b) {
		return it, fmt.Errorf("item header announces %d bytes, have %d", size, len(b)-2)
	}
	if size < 4 {
		return it, fmt.Errorf("item header announces %d bytes, fewer than type + path count", size)
	}
	it.IsFolder = b[3] == 1
	body := b[4 : 2+size]
	if len(body) < 2 {
		return it, fmt.Errorf("item header without path count")
	}
	n := int(binary.BigEndian.Uint16(body[:2]))
	p := 2
	for i := 0; i < n; i++ {
		if p+3 > len(body) {
			return it, fmt.Errorf("path item %d beyond header", i)
		}
		l := int(body[p+2])
		p += 3
		if p+l > len(body) {
			return it, fmt.Errorf("path item %d name beyond header", i)
		}
		it.Path = append(it.Path, string(body[p:p+l]))
		p += l
	}
	if p != len(body) {
		return it, fmt.Errorf("item header has %d trailing bytes", len(body)-p)
	}
	it.Len = 2 + size
	return it, nil
}

// FileListEntry is a decoded "file name with info" field (200).
type FileListEntry struct {
	Type    string
	Creator string
	Size    uint32
	Name    string
}

func DecodeFileListEntry(b []byte) (FileListEntry, error) {
	var e FileListEntry
	if len(b) < 20 {
		return e, fmt.Errorf("file list entry too short: %d", len(b))
	}
	e.Type = string(b[0:4])
	e.Creator = string(b[4:8])
	e.Size = binary.BigEndian.Uint32(b[8:12])
	n := int(binary.BigEndian.Uint16(b[18:20]))
	if 20+n != len(b) {
		return e, fmt.Errorf("file list entry name length %d but %d bytes follow", n, len(b)-20)
	}
	e.Name = string(b[20:])
	return e, nil
}
