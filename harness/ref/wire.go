// Package ref holds the reference models: an independent Hotline codec written from the protocol
// document (docs/HLProtocol.pages.pdf) and the reference behaviours the checks compare against.
// Nothing here calls into the repository's own codec.
package ref

import (
	"bytes"
	"encoding/binary"
	"fmt"
	"sort"
	"strings"
)

// Fld is one transaction parameter.
type Fld struct {
	ID   uint16
	Data []byte
}

// Tx is a transaction as it appears on the wire.
type Tx struct {
	Flags   byte
	IsReply byte
	Type    uint16
	ID      uint32
	Err     uint32
	Fields  []Fld
}

func F(id uint16, data []byte) Fld { return Fld{id, data} }
func FS(id uint16, s string) Fld   { return Fld{id, []byte(s)} }
func F16(id uint16, v uint16) Fld  { return Fld{id, []byte{byte(v >> 8), byte(v)}} }
func F32(id uint16, v uint32) Fld {
	return Fld{id, []byte{byte(v >> 24), byte(v >> 16), byte(v >> 8), byte(v)}}
}

// Field ids (protocol document numbering).
const (
	FError            = 100
	FData             = 101
	FUserName         = 102
	FUserID           = 103
	FUserIconID       = 104
	FUserLogin        = 105
	FUserPassword     = 106
	FRefNum           = 107
	FTransferSize     = 108
	FChatOptions      = 109
	FUserAccess       = 110
	FUserFlags        = 112
	FOptions          = 113
	FChatID           = 114
	FChatSubject      = 115
	FWaitingCount     = 116
	FBannerType       = 152
	FVersion          = 160
	FCommunityBanner  = 161
	FServerName       = 162
	FFileNameWithInfo = 200
	FFileName         = 201
	FFilePath         = 202
	FFileResumeData   = 203
	FFileXferOptions  = 204
	FFileTypeString   = 205
	FFileCreatorStr   = 206
	FFileSize         = 207
	FFileCreateDate   = 208
	FFileModifyDate   = 209
	FFileComment      = 210
	FFileNewName      = 211
	FFileNewPath      = 212
	FFileType         = 213
	FQuotingMsg       = 214
	FAutoResponse     = 215
	FFolderItemCount  = 220
	FUserNameWithInfo = 300
	FNewsArtListData  = 321
	FNewsCatName      = 322
	FNewsCatListData  = 323
	FNewsPath         = 325
	FNewsArtID        = 326
	FNewsArtDataFlav  = 327
	FNewsArtTitle     = 328
	FNewsArtPoster    = 329
	FNewsArtDate      = 330
	FNewsArtPrev      = 331
	FNewsArtNext      = 332
	FNewsArtData      = 333
	FNewsArtParent    = 335
	FNewsArt1stChild  = 336
	FNewsArtRecurse   = 337
)

// Transaction types.
const (
	TError             = 0
	TGetMsgs           = 101
	TNewMsg            = 102
	TOldPostNews       = 103
	TServerMsg         = 104
	TChatSend          = 105
	TChatMsg           = 106
	TLogin             = 107
	TSendInstantMsg    = 108
	TShowAgreement     = 109
	TDisconnectUser    = 110
	TDisconnectMsg     = 111
	TInviteNewChat     = 112
	TInviteToChat      = 113
	TRejectChatInvite  = 114
	TJoinChat          = 115
	TLeaveChat         = 116
	TNotifyChatChange  = 117
	TNotifyChatDelete  = 118
	TNotifyChatSubject = 119
	TSetChatSubject    = 120
	TAgreed            = 121
	TServerBanner      = 122
	TGetFileNameList   = 200
	TDownloadFile      = 202
	TUploadFile        = 203
	TDeleteFile        = 204
	TNewFolder         = 205
	TGetFileInfo       = 206
	TSetFileInfo       = 207
	TMoveFile          = 208
	TMakeFileAlias     = 209
	TDownloadFldr      = 210
	TDownloadInfo      = 211
	TDownloadBanner    = 212
	TUploadFldr        = 213
	TGetUserNameList   = 300
	TNotifyChangeUser  = 301
	TNotifyDeleteUser  = 302
	TGetClientInfoText = 303
	TSetClientUserInfo = 304
	TListUsers         = 348
	TUpdateUser        = 349
	TNewUser           = 350
	TDeleteUser        = 351
	TGetUser           = 352
	TSetUser           = 353
	TUserAccess        = 354
	TUserBroadcast     = 355
	TGetNewsCatList    = 370
	TGetNewsArtList    = 371
	TDelNewsItem       = 380
	TNewNewsFldr       = 381
	TNewNewsCat        = 382
	TGetNewsArtData    = 400
	TPostNewsArt       = 410
	TDelNewsArt        = 411
	TKeepAlive         = 500
)

// AllRequestTypes are the 43 transaction types a server registers handlers for.
var AllRequestTypes = []uint16{
	TGetMsgs, TOldPostNews, TChatSend, TSendInstantMsg, TDisconnectUser, TInviteNewChat, TInviteToChat,
	TRejectChatInvite, TJoinChat, TLeaveChat, TSetChatSubject, TAgreed, TGetFileNameList, TDownloadFile,
	TUploadFile, TDeleteFile, TNewFolder, TGetFileInfo, TSetFileInfo, TMoveFile, TMakeFileAlias,
	TDownloadFldr, TDownloadBanner, TUploadFldr, TGetUserNameList, TGetClientInfoText, TSetClientUserInfo,
	TListUsers, TUpdateUser, TNewUser, TDeleteUser, TGetUser, TSetUser, TUserBroadcast, TGetNewsCatList,
	TGetNewsArtList, TDelNewsItem, TNewNewsFldr, TNewNewsCat, TGetNewsArtData, TPostNewsArt, TDelNewsArt,
	TKeepAlive,
}

// EncodeFields returns the parameter block: count followed by (id, size, data) triples.
func EncodeFields(fs []Fld) []byte {
	var b bytes.Buffer
	_ = binary.Write(&b, binary.BigEndian, uint16(len(fs)))
	for _, f := range fs {
		_ = binary.Write(&b, binary.BigEndian, f.ID)
		_ = binary.Write(&b, binary.BigEndian, uint16(len(f.Data)))
		b.Write(f.Data)
	}
	return b.Bytes()
}

// Encode returns the wire bytes of t: 20-byte header (flags, is-reply, type, id, error code, total
// size, data size) followed by the parameter block.
func (t Tx) Encode() []byte {
	body := EncodeFields(t.Fields)
	var b bytes.Buffer
	b.WriteByte(t.Flags)
	b.WriteByte(t.IsReply)
	_ = binary.Write(&b, binary.BigEndian, t.Type)
	_ = binary.Write(&b, binary.BigEndian, t.ID)
	_ = binary.Write(&b, binary.BigEndian, t.Err)
	_ = binary.Write(&b, binary.BigEndian, uint32(len(body)))
	_ = binary.Write(&b, binary.BigEndian, uint32(len(body)))
	b.Write(body)
	return b.Bytes()
}

// DecodeTx decodes one complete transaction at the start of b and returns it with its length.
// It is strict: total size = data size, the parameter block must be consumed exactly.
func DecodeTx(b []byte) (Tx, int, error) {
	var t Tx
	if len(b) < 20 {
		return t, 0, fmt.Errorf("short header: %d bytes", len(b))
	}
	t.Flags, t.IsReply = b[0], b[1]
	t.Type = binary.BigEndian.Uint16(b[2:4])
	t.ID = binary.BigEndian.Uint32(b[4:8])
	t.Err = binary.BigEndian.Uint32(b[8:12])
	total := binary.BigEndian.Uint32(b[12:16])
	data := binary.BigEndian.Uint32(b[16:20])
	if total != data {
		return t, 0, fmt.Errorf("total size %d != data size %d", total, data)
	}
	if total < 2 {
		return t, 0, fmt.Errorf("total size %d < 2", total)
	}
	if int(total) > len(b)-20 {
		return t, 0, fmt.Errorf("truncated transaction: need %d have %d", total, len(b)-20)
	}
	body := b[20 : 20+int(total)]
	n := int(binary.BigEndian.Uint16(body[0:2]))
	p := 2
	for i := 0; i < n; i++ {
		if p+4 > len(body) {
			return t, 0, fmt.Errorf("field %d header beyond parameter block", i)
		}
		id := binary.BigEndian.Uint16(body[p : p+2])
		sz := int(binary.BigEndian.Uint16(body[p+2 : p+4]))
		p += 4
		if p+sz > len(body) {
			return t, 0, fmt.Errorf("field %d (id %d) size %d beyond parameter block", i, id, sz)
		}
		t.Fields = append(t.Fields, Fld{id, append([]byte(nil), body[p:p+sz]...)})
		p += sz
	}
	if p != len(body) {
		return t, 0, fmt.Errorf("parameter block has %d trailing bytes", len(body)-p)
	}
	return t, 20 + int(total), nil
}

// DecodeStream splits b into complete transactions; rest is what remains after the last complete one.
func DecodeStream(b []byte) (txs []Tx, rest []byte, err error) {
	for len(b) > 0 {
		if len(b) < 20 {
			return txs, b, nil
		}
		total := binary.BigEndian.Uint32(b[12:16])
		if int(total) > len(b)-20 {
			return txs, b, nil
		}
		t, n, e := DecodeTx(b)
		if e != nil {
			return txs, b, e
		}
		txs = append(txs, t)
		b = b[n:]
	}
	return txs, nil, nil
}

func (t Tx) Get(id uint16) ([]byte, bool) {
	for _, f := range t.Fields {
		if f.ID == id {
			return f.Data, true
		}
	}
	return nil, false
}

func (t Tx) GetAll(id uint16) [][]byte {
	var out [][]byte
	for _, f := range t.Fields {
		if f.ID == id {
			out = append(out, f.Data)
		}
	}
	return out
}

// String renders t canonically (ids included).
func (t Tx) String() string {
	var sb strings.Builder
	fmt.Fprintf(&sb, "{r%d t%d id%x e%d", t.IsReply, t.Type, t.ID, t.Err)
	for _, f := range t.Fields {
		fmt.Fprintf(&sb, " %d=%s", f.ID, short(f.Data))
	}
	sb.WriteString("}")
	return sb.String()
}

// Canon renders t without its transaction id when it is a server-initiated transaction (those ids
// are server-chosen and carry no meaning).
func (t Tx) Canon() string {
	c := t
	if c.IsReply == 0 {
		c.ID = 0
	}
	return c.String()
}

func short(b []byte) string {
	if len(b) <= 48 {
		return fmt.Sprintf("%q", b)
	}
	return fmt.Sprintf("%q..(%d bytes, sum %x)", b[:24], len(b), fnv(b))
}

func fnv(b []byte) uint64 {
	h := uint64(14695981039346656037)
	for _, c := range b {
		h ^= uint64(c)
		h *= 1099511628211
	}
	return h
}

// CanonMultiset renders a multiset of transactions order-independently.
func CanonMultiset(txs []Tx) string {
	s := make([]string, len(txs))
	for i, t := range txs {
		s[i] = t.Canon()
	}
	sort.Strings(s)
	return strings.Join(s, "\n")
}

// Obfuscate is the protocol's login/password scrambling (each byte complemented).
func Obfuscate(b []byte) []byte {
	o := make([]byte, len(b))
	for i, c := range b {
		o[i] = 255 - c
	}
	return o
}

// Handshake is the 12-byte client greeting: TRTP HOTL version 1 sub-version 2.
func Handshake() []byte {
	return []byte{'T', 'R', 'T', 'P', 'H', 'O', 'T', 'L', 0, 1, 0, 2}
}

// HandshakeReply is what a server answers to a valid greeting: TRTP and a zero error code.
func HandshakeReply() []byte { return []byte{'T', 'R', 'T', 'P', 0, 0, 0, 0} }

// PathBytes encodes a file path: item count, then per item two zero bytes, a length byte, the name.
func PathBytes(items ...string) []byte {
	var b bytes.Buffer
	_ = binary.Write(&b, binary.BigEndian, uint16(len(items)))
	for _, it := range items {
		b.Write([]byte{0, 0, byte(len(it))})
		b.WriteString(it)
	}
	return b.Bytes()
}

// NewsPathBytes has the same layout as a file path.
func NewsPathBytes(items ...string) []byte { return PathBytes(items...) }

// UserInfo is a decoded "user name with info" record (field 300).
type UserInfo struct {
	ID    uint16
	Icon  uint16
	Flags uint16
	Name  string
}

func DecodeUserInfo(b []byte) (UserInfo, error) {
	var u UserInfo
	if len(b) < 8 {
		return u, fmt.Errorf("user info too short: %d", len(b))
	}
	u.ID = binary.BigEndian.Uint16(b[0:2])
	u.Icon = binary.BigEndian.Uint16(b[2:4])
	u.Flags = binary.BigEndian.Uint16(b[4:6])
	n := int(binary.BigEndian.Uint16(b[6:8]))
	if 8+n != len(b) {
		return u, fmt.Errorf("user info name length %d but %d bytes follow", n, len(b)-8)
	}
	u.Name = string(b[8:])
	return u, nil
}

func EncodeUserInfo(u UserInfo) []byte {
	var b bytes.Buffer
	_ = binary.Write(&b, binary.BigEndian, u.ID)
	_ = binary.Write(&b, binary.BigEndian, u.Icon)
	_ = binary.Write(&b, binary.BigEndian, u.Flags)
	_ = binary.Write(&b, binary.BigEndian, uint16(len(u.Name)))
	b.WriteString(u.Name)
	return b.Bytes()
}
