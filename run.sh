#!/bin/bash
# ./run.sh <Cxx> quick|thorough          run a check against /repo's current working tree
# ./run.sh <Cxx> --replay <file>          replay a violation artefact
# Instruments a scratch copy of /repo (mkinst), adds the harness, builds with -tags verif, runs vcheck.
set -u
export GOFLAGS=-mod=mod GOPROXY=off GOSUMDB=off GOTOOLCHAIN=local CGO_ENABLED=0
VERIF="$(cd "$(dirname "$0")" && pwd)"
REPO="${VERIF_REPO:-/repo}"
ID="${1:?usage: run.sh <Cxx> quick|thorough|--replay file}"
MODE="${2:-quick}"
BASE=/dev/shm
[ -d "$BASE" ] && [ -w "$BASE" ] || BASE="${TMPDIR:-/var/tmp}"
SCR="$(mktemp -d "$BASE/verif.XXXXXX")"
cleanup() { rm -rf "$SCR"; }
trap cleanup EXIT
trap 'cleanup; exit 130' INT TERM

fail() { echo "ERROR: $*" >&2; exit 2; }

MKINST="$VERIF/bin/mkinst"
if [ ! -x "$MKINST" ] || [ "$VERIF/tools/mkinst/main.go" -nt "$MKINST" ]; then
  mkdir -p "$VERIF/bin"
  (cd "$VERIF/tools/mkinst" && go build -o "$MKINST" .) || fail "building mkinst"
fi

mkdir -p "$SCR/src" "$SCR/tmp"
rsync -a --exclude .git "$REPO"/ "$SCR/src"/ || fail "copying $REPO"
rm -rf "$SCR/src/verifh"
cp -r "$VERIF/harness" "$SCR/src/verifh"
if [ "$ID" = "C20" ]; then
  # reference binary for the strace conformance run: built from the copy BEFORE it is instrumented
  (cd "$SCR/src" && go build -trimpath -o "$SCR/c20ref" ./verifh/cmd/c20ref) 2>"$SCR/build0.log" || { cat "$SCR/build0.log" >&2; fail "build of the uninstrumented reference binary failed"; }
  export VERIF_C20REF="$SCR/c20ref"
fi
"$MKINST" -vos news.go,threaded_news.go,account_manager.go,ban.go,files.go "$SCR/src/hotline" "$SCR/src/internal/mobius" 2>"$SCR/mkinst.log" || { cat "$SCR/mkinst.log" >&2; fail "instrumentation failed"; }
RACE=""
[ "${VERIF_RACE:-0}" = 1 ] && RACE="-race" && export CGO_ENABLED=1
(cd "$SCR/src" && go build -trimpath $RACE -tags verif -o "$SCR/vcheck" ./verifh/cmd/vcheck) 2>"$SCR/build.log" || { cat "$SCR/build.log" >&2; fail "build of instrumented tree failed"; }

export VERIF_SCRATCH="$SCR/tmp"
if [ "$MODE" = "--replay" ]; then
  "$SCR/vcheck" -check "$ID" -replay "${3:?replay file}" -verif "$VERIF"
  exit $?
fi
"$SCR/vcheck" -check "$ID" -tier "$MODE" -seed "${VERIF_SEED:-0}" -verif "$VERIF" ${VERIF_WORKERS:+-workers $VERIF_WORKERS} ${VERIF_BUDGET:+-budget $VERIF_BUDGET}
rc=$?
# thorough tier of the schedule-exploring checks: a second pass under the race detector (happens-before oracle)
case "$MODE:$ID" in
  thorough:C03|thorough:C04|thorough:C13|thorough:C14|thorough:C15|thorough:C17|thorough:C18|thorough:C19)
    if [ "${VERIF_NORACE:-0}" != 1 ] && [ -z "$RACE" ] && [ $rc != 2 ]; then
      export CGO_ENABLED=1
      if (cd "$SCR/src" && go build -trimpath -race -tags verif -o "$SCR/vcheck-race" ./verifh/cmd/vcheck) 2>"$SCR/build-race.log"; then
        "$SCR/vcheck-race" -check "$ID" -tier thorough -racepass -seed "${VERIF_SEED:-0}" -verif "$VERIF" ${VERIF_WORKERS:+-workers $VERIF_WORKERS}
        rc2=$?; [ $rc2 -gt $rc ] && rc=$rc2
      else
        echo "note: race-detector build not available here; race pass skipped" >&2; tail -3 "$SCR/build-race.log" >&2
      fi
    fi;;
esac
exit $rc
