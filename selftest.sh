#!/bin/bash
# ./selftest.sh <patch.diff> <Cxx> [quick|thorough]  — run a check against a scratch copy of /repo's working tree with a
# seeded change applied.  Expected: exit 1 and a VIOLATION line.  /repo itself and /verif/evidence are not touched
# (equivalent to git -C /repo apply; run; git -C /repo checkout -- . , but safe to run next to other checks).
set -u
PATCH="$(readlink -f "$1")"; ID="$2"; TIER="${3:-quick}"
VERIF="$(cd "$(dirname "$0")" && pwd)"
BASE=/dev/shm; [ -d "$BASE" ] && [ -w "$BASE" ] || BASE="${TMPDIR:-/var/tmp}"
SC="$(mktemp -d "$BASE/selftest.XXXXXX")"
trap 'rm -rf "$SC"' EXIT
rsync -a --exclude .git /repo/ "$SC/src"/ || exit 2
# a seeded change that no longer applies exactly (the repository has been repaired around it since) is applied with
# fuzz; only if that fails too it counts as not applicable
(cd "$SC/src" && { git apply "$PATCH" 2>/dev/null || patch -p1 -s -F3 --no-backup-if-mismatch < "$PATCH"; }) || { echo "selftest: patch does not apply" >&2; exit 2; }
VERIF_REPO="$SC/src" VERIF_EVIDENCE_DIR="$SC/evidence" "$VERIF/run.sh" "$ID" "$TIER"; rc=$?
echo "selftest: $ID on $(basename "$(dirname "$PATCH")")/$(basename "$PATCH") -> exit $rc"
exit $rc
