#!/bin/bash
# ./selftest.sh <patch.diff> <Cxx> [quick|thorough]  — apply a seeded change to /repo, run the check, undo the change.
# Expected: exit 1 and a VIOLATION line.  Never leaves /repo modified.
set -u
PATCH="$(readlink -f "$1")"; ID="$2"; TIER="${3:-quick}"
VERIF="$(cd "$(dirname "$0")" && pwd)"
if ! git -C /repo diff --quiet; then echo "selftest: /repo has uncommitted changes" >&2; exit 2; fi
git -C /repo apply "$PATCH" || { echo "selftest: patch does not apply" >&2; exit 2; }
trap 'git -C /repo apply -R "$PATCH" 2>/dev/null || git -C /repo checkout -- .' EXIT
cp -r "$VERIF/evidence" "$VERIF/.evidence.bak" 2>/dev/null
"$VERIF/run.sh" "$ID" "$TIER"; rc=$?
rm -rf "$VERIF/evidence"; mv "$VERIF/.evidence.bak" "$VERIF/evidence" 2>/dev/null
echo "selftest: $ID on $(basename "$(dirname "$PATCH")")/$(basename "$PATCH") -> exit $rc"
exit $rc
